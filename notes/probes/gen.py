#!/usr/bin/env python3
"""Throw-away prototype (design phase): W-gen + Ref, to measure agreement with chalk.
Not framework code. Usage: gen.py SEED NWORLDS OUT.txt OUT.expect"""
import random, sys, itertools, json

sys.setrecursionlimit(10000)

# ---------- types ----------
def adt(n, *a): return ('adt', n, tuple(a))
def var(i): return ('var', i)
def sk(i): return ('sk', i)

def subst(t, m):
    if t[0] == 'var': return m.get(t[1], t)
    if t[0] == 'adt': return ('adt', t[1], tuple(subst(x, m) for x in t[2]))
    return t

def match(pat, t, m):
    if pat[0] == 'var':
        if pat[1] in m: return m[pat[1]] == t
        m[pat[1]] = t; return True
    if pat[0] == 'adt':
        if t[0] != 'adt' or t[1] != pat[1] or len(t[2]) != len(pat[2]): return False
        return all(match(p, x, m) for p, x in zip(pat[2], t[2]))
    return pat == t

def size(t):
    return 1 + sum(size(x) for x in t[2]) if t[0] == 'adt' else 1

def show(t, names=None):
    if t[0] == 'adt': return t[1] + ('<' + ', '.join(show(x, names) for x in t[2]) + '>' if t[2] else '')
    if t[0] == 'var': return (names if names is not None else {}).get(t[1], 'T%s' % (t[1],))
    if t[0] == 'sk': return 'K%d' % t[1]
    raise Exception(t)

# ---------- generator ----------
class World: pass

def gen_world(rng):
    w = World()
    feats = {f: rng.random() < 0.5 for f in ['co', 'auto', 'neg', 'super', 'blanket', 'overlap', 'grow', 'params', 'cycles']}
    w.feats = feats
    nad = rng.randint(2, 4)
    w.adts = {}   # name -> (arity, fields)
    names = ['A', 'B', 'C', 'D'][:nad]
    ar = {}
    for i, n in enumerate(names):
        ar[n] = 0 if i < 2 else rng.choice([0, 1, 1, 2])
    # generic wrappers
    for n in ['V', 'W'][:rng.randint(1, 2)]:
        ar[n] = 1 if n == 'V' else rng.choice([1, 2])
    w.arity = ar
    def rand_ty(depth, params, allow_params=True):
        choices = [n for n in ar]
        if params and allow_params and rng.random() < 0.4: return var(rng.choice(params))
        n = rng.choice(choices)
        if depth <= 0:
            zero = [m for m in ar if ar[m] == 0]
            n = rng.choice(zero)
        return adt(n, *[rand_ty(depth - 1, params, allow_params) for _ in range(ar[n])])
    w.rand_ty = rand_ty
    for n in ar:
        params = list(range(ar[n]))
        nf = rng.randint(0, 2)
        fields = [rand_ty(1, params) for _ in range(nf)]
        # recursive fields sometimes
        if rng.random() < 0.3: fields.append(adt(n, *[var(i) for i in params]))
        if rng.random() < 0.2:
            o = rng.choice(list(ar))
            fields.append(adt(o, *[rand_ty(0, params) for _ in range(ar[o])]))
        w.adts[n] = (ar[n], fields)
    # traits
    w.traits = {}
    ntr = rng.randint(2, 4)
    tnames = ['Foo', 'Bar', 'Baz', 'Qux'][:ntr]
    for tn in tnames:
        kind = 'ind'
        if feats['co'] and rng.random() < 0.35: kind = 'co'
        npar = 1 if (feats['params'] and rng.random() < 0.3) else 0
        w.traits[tn] = dict(nparams=npar, kind=kind, wcs=[])
    if feats['auto']:
        w.traits['Send'] = dict(nparams=0, kind='auto', wcs=[])
    # supertraits (where clauses on trait): Self: Other or P0: Other ; only 0-param targets for simplicity + param targets
    if feats['super']:
        for tn, td in w.traits.items():
            if td['kind'] == 'auto': continue
            for _ in range(rng.randint(0, 2)):
                tgt = rng.choice([x for x in w.traits if x != tn and w.traits[x]['kind'] != 'auto'] or [None])
                if tgt is None: continue
                subj = var('Self') if (td['nparams'] == 0 or rng.random() < 0.7) else var(0)
                targs = tuple(rand_ty(0, [], False) if rng.random() < 0.5 or td['nparams'] == 0 else var(0) for _ in range(w.traits[tgt]['nparams']))
                td['wcs'].append((subj, tgt, targs))
    # impls
    w.impls = []
    nimpl = rng.randint(2, 8)
    for _ in range(nimpl):
        tn = rng.choice(list(w.traits))
        td = w.traits[tn]
        np_ = rng.choice([0, 0, 1, 1, 2])
        params = list(range(np_))
        coish = td['kind'] in ('co', 'auto')
        if feats['blanket'] and np_ >= 1 and rng.random() < 0.2 and td['kind'] != 'auto':
            self_ty = var(0)
        else:
            self_ty = rand_ty(2, params)
            if self_ty[0] == 'var': self_ty = adt('V', self_ty)
        targs = tuple(rand_ty(1, params) for _ in range(td['nparams']))
        used = set()
        def collect(t):
            if t[0] == 'var': used.add(t[1])
            elif t[0] == 'adt':
                for x in t[2]: collect(x)
        collect(self_ty)
        for a in targs: collect(a)
        params = [p for p in params if p in used]
        positive = True
        if td['kind'] == 'auto' and feats['neg'] and rng.random() < 0.4: positive = False
        wcs = []
        if positive:
            for _ in range(rng.randint(0, 2)):
                cands = [x for x in w.traits if (w.traits[x]['kind'] in ('co', 'auto')) == coish] if coish else list(w.traits)
                if not cands: continue
                wt = rng.choice(cands)
                # subject: param, subterm, or (grow) wrapper
                opts = [var(p) for p in params]
                if self_ty[0] == 'adt': opts += list(self_ty[2])
                if feats['cycles']: opts.append(self_ty)
                if feats['grow'] and rng.random() < 0.3: opts.append(adt('V', self_ty))
                if not opts: opts = [rand_ty(0, [], False)]
                subj = rng.choice(opts)
                wargs = tuple(rand_ty(1, params) for _ in range(w.traits[wt]['nparams']))
                wcs.append((subj, wt, wargs))
        w.impls.append(dict(params=params, trait=tn, self_ty=self_ty, args=targs, wcs=wcs, positive=positive))
    if feats['overlap'] and w.impls:
        w.impls.append(dict(rng.choice(w.impls)))
    return w

def render_world(w):
    out = []
    for n, (ar, fields) in w.adts.items():
        ps = ', '.join('T%d' % i for i in range(ar))
        fs = ', '.join('f%d: %s' % (i, show(f)) for i, f in enumerate(fields))
        out.append('struct %s%s { %s }' % (n, '<' + ps + '>' if ar else '', fs))
    for tn, td in w.traits.items():
        attr = {'ind': '', 'co': '#[coinductive] ', 'auto': '#[auto] '}[td['kind']]
        ps = ', '.join('P%d' % i for i in range(td['nparams']))
        names = {'Self': 'Self'}
        names.update({i: 'P%d' % i for i in range(td['nparams'])})
        wc = ', '.join('%s: %s%s' % (show(s, names), t, '<' + ', '.join(show(a, names) for a in args) + '>' if args else '') for (s, t, args) in td['wcs'])
        out.append('%strait %s%s %s{}' % (attr, tn, '<' + ps + '>' if ps else '', ('where ' + wc + ' ') if wc else ''))
    for im in w.impls:
        ps = ', '.join('T%d' % i for i in im['params'])
        tr = im['trait'] + ('<' + ', '.join(show(a) for a in im['args']) + '>' if im['args'] else '')
        wc = ', '.join('%s: %s%s' % (show(s), t, '<' + ', '.join(show(a) for a in args) + '>' if args else '') for (s, t, args) in im['wcs'])
        out.append('impl%s %s%s for %s %s{}' % ('<' + ps + '>' if ps else '', '' if im['positive'] else '!', tr, show(im['self_ty']), ('where ' + wc + ' ') if wc else ''))
    return ' '.join(out)

# ---------- goals ----------
def gen_goal(rng, w, closed=True):
    # returns goal AST using named vars ('var', 'X0') for quantified
    ctr = [0]
    def fresh():
        ctr[0] += 1; return 'X%d' % ctr[0]
    def ty(depth, scope):
        if scope and rng.random() < 0.45: return var(rng.choice(scope))
        n = rng.choice(list(w.arity))
        if depth <= 0: n = rng.choice([m for m in w.arity if w.arity[m] == 0])
        return adt(n, *[ty(depth - 1, scope) for _ in range(w.arity[n])])
    def pred(scope):
        tn = rng.choice(list(w.traits))
        return ('tr', ty(2, scope), tn, tuple(ty(1, scope) for _ in range(w.traits[tn]['nparams'])))
    def g(depth, scope, ex_scope):
        r = rng.random()
        if depth <= 0 or r < 0.35: return pred(scope)
        if r < 0.5:
            v = fresh(); return ('forall', v, g(depth - 1, scope + [v], ex_scope))
        if r < 0.62:
            hyps = []
            for _ in range(rng.randint(1, 2)):
                tn = rng.choice([t for t in w.traits if w.traits[t]['kind'] != 'auto'] or list(w.traits))
                hs = var(rng.choice(scope)) if scope and rng.random() < 0.8 else ty(1, scope)
                hyps.append(('tr', hs, tn, tuple(ty(1, scope) for _ in range(w.traits[tn]['nparams']))))
            return ('if', hyps, g(depth - 1, scope, ex_scope))
        if r < 0.72:
            # not around concrete predicate (no vars at all)
            return ('not', pred([]))
        if r < 0.82:
            return ('and', [g(depth - 1, scope, ex_scope), g(depth - 1, scope, ex_scope)])
        if r < 0.9:
            a = ty(1, scope); b = a if rng.random() < 0.5 else ty(1, scope)
            return ('eq', a, b)
        if not closed:
            v = fresh(); return ('exists', v, g(depth - 1, scope + [v], ex_scope + [v]))
        return pred(scope)
    if closed:
        return g(3, [], [])
    v = fresh()
    return ('exists', v, g(2, [v], [v]))

def render_goal(gl):
    k = gl[0]
    if k == 'tr': return '%s: %s%s' % (show(gl[1], NM), gl[2], '<' + ', '.join(show(a, NM) for a in gl[3]) + '>' if gl[3] else '')
    if k == 'eq': return '%s = %s' % (show(gl[1], NM), show(gl[2], NM))
    if k == 'and': return ', '.join(('(%s)' % render_goal(x)) if x[0] == 'and' else render_goal(x) for x in gl[1])
    if k == 'forall': return 'forall<%s> { %s }' % (gl[1], render_goal(gl[2]))
    if k == 'exists': return 'exists<%s> { %s }' % (gl[1], render_goal(gl[2]))
    if k == 'not': return 'not { %s }' % render_goal(gl[1])
    if k == 'if': return 'if (%s) { %s }' % ('; '.join(render_goal(h) for h in gl[1]), render_goal(gl[2]))
    raise Exception(gl)

class Names(dict):
    def get(self, k, d=None): return k if isinstance(k, str) else d
NM = Names()

# ---------- Ref ----------
T, F, U = 'T', 'F', 'U'
class Budget(Exception): pass

class Ref:
    def __init__(self, w, budget=20000):
        self.w = w; self.steps = 0; self.budget = budget; self.maxsize = 0
    def tick(self):
        self.steps += 1
        if self.steps > self.budget: raise Budget()
    def closure(self, env):
        out = set(env); work = list(env)
        while work:
            (ty, tn, args) = work.pop()
            td = self.w.traits[tn]
            m = {'Self': ty}
            for i, a in enumerate(args): m[i] = a
            for (s, t2, a2) in td['wcs']:
                f = (subst(s, m), t2, tuple(subst(x, m) for x in a2))
                if f not in out: out.add(f); work.append(f)
        return out
    def atom(self, ty, tn, args, env, stack):
        self.tick()
        self.maxsize = max(self.maxsize, size(ty), *[size(a) for a in args] or [0])
        if size(ty) > 12: raise Budget()
        key = (ty, tn, args)
        if key in env: return T
        kind = self.w.traits[tn]['kind']
        co = kind in ('co', 'auto')
        if key in [s[0] for s in stack]:
            i = [s[0] for s in stack].index(key)
            kinds = set(s[1] for s in stack[i:])
            if kinds == {True}: return T
            if kinds == {False}: return F
            return U
        stack = stack + [(key, co)]
        res = F
        for im in self.w.impls:
            if im['trait'] != tn or not im['positive']: continue
            m = {}
            if not match(im['self_ty'], ty, m): continue
            if not all(match(p, a, m) for p, a in zip(im['args'], args)): continue
            r = T
            for (s, t2, a2) in im['wcs']:
                rr = self.atom(subst(s, m), t2, tuple(subst(x, m) for x in a2), env, stack)
                if rr == F: r = F; break
                if rr == U: r = U
            if r == T: return T
            if r == U: res = U
        if kind == 'auto' and ty[0] == 'adt':
            provided = any(im['trait'] == tn and im['self_ty'][0] == 'adt' and im['self_ty'][1] == ty[1] for im in self.w.impls)
            if not provided:
                ar, fields = self.w.adts[ty[1]]
                m = {i: a for i, a in enumerate(ty[2])}
                r = T
                for f in fields:
                    rr = self.atom(subst(f, m), tn, (), env, stack)
                    if rr == F: r = F; break
                    if rr == U: r = U
                if r == T: return T
                if r == U: res = U
        return res
    def goal(self, gl, env, m, skc):
        k = gl[0]
        if k == 'tr':
            return self.atom(subst(gl[1], m), gl[2], tuple(subst(a, m) for a in gl[3]), self.closure(env), [])
        if k == 'eq':
            return T if subst(gl[1], m) == subst(gl[2], m) else F
        if k == 'and':
            r = T
            for x in gl[1]:
                rr = self.goal(x, env, m, skc)
                if rr == F: return F
                if rr == U: r = U
            return r
        if k == 'forall':
            skc[0] += 1
            m2 = dict(m); m2[gl[1]] = sk(skc[0])
            return self.goal(gl[2], env, m2, skc)
        if k == 'if':
            env2 = set(env)
            for h in gl[1]: env2.add((subst(h[1], m), h[2], tuple(subst(a, m) for a in h[3])))
            return self.goal(gl[2], frozenset(env2), m, skc)
        if k == 'not':
            r = self.goal(gl[1], env, m, skc)
            return {T: F, F: T, U: U}[r]
        if k == 'exists':
            return U  # nested exists not evaluated by the prototype
        raise Exception(gl)

def universe(w, depth, skolems=()):
    level = [adt(n) for n in w.arity if w.arity[n] == 0] + [sk(i) for i in skolems]
    allt = list(level)
    for _ in range(depth):
        new = []
        for n in w.arity:
            if w.arity[n] == 0: continue
            for combo in itertools.product(allt, repeat=w.arity[n]):
                t = adt(n, *combo)
                if t not in allt and t not in new: new.append(t)
        allt += new
        if len(allt) > 400: break
    return allt

def main():
    seed, n, out, outexp = int(sys.argv[1]), int(sys.argv[2]), sys.argv[3], sys.argv[4]
    rng = random.Random(seed)
    fo = open(out, 'w'); fe = open(outexp, 'w')
    for wi in range(n):
        w = gen_world(rng)
        fo.write('P\tw%d\t0\t%s\n' % (wi, render_world(w)))
        exp = []
        for gi in range(8):
            closed = gi < 6
            gl = gen_goal(rng, w, closed)
            text = render_goal(gl)
            fo.write('G\t%s\n' % text)
            if closed:
                ref = Ref(w)
                try: r = ref.goal(gl, frozenset(), {}, [0])
                except (Budget, RecursionError): r = U
                exp.append(dict(goal=text, closed=True, ref=r, maxsize=ref.maxsize))
            else:
                # top-level exists<X> { body }: enumerate universe depth 2
                v, body = gl[1], gl[2]
                sols = []; unk = False
                for t in universe(w, 2):
                    ref = Ref(w, 5000)
                    try: r = ref.goal(body, frozenset(), {v: t}, [0])
                    except (Budget, RecursionError): r = U
                    if r == T: sols.append(show(t))
                    if r == U: unk = True
                exp.append(dict(goal=text, closed=False, sols=sols, unk=unk))
        fe.write(json.dumps(dict(world=wi, feats=w.feats, goals=exp)) + '\n')
    fo.close(); fe.close()

if __name__ == '__main__':
    main()
