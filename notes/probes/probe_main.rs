// Scratch experiment: probe behaviours relevant to the design (not framework code).
use chalk_integration::db::ChalkDatabase;
use chalk_integration::interner::ChalkIr;
use chalk_integration::lowering::lower_goal;
use chalk_integration::program::Program;
use chalk_integration::query::LoweringDatabase;
use chalk_integration::SolverChoice;
use chalk_ir::*;
use chalk_solve::ext::GoalExt;
use chalk_solve::rust_ir::*;
use chalk_solve::{RustIrDatabase, Solution, Solver};
use std::cell::Cell;
use std::panic::{catch_unwind, AssertUnwindSafe};
use std::sync::Arc;

#[derive(Debug)]
pub struct SimDb {
    p: Arc<Program>,
    calls: Cell<u64>,
    panic_at: Cell<Option<u64>>,
    budget: Cell<u64>,
    superset: Cell<bool>,
    seam_checked: Cell<u64>,
    seam_bad: Cell<u64>,
    seam_on: Cell<bool>,
}

impl SimDb {
    fn tick(&self, _what: &'static str) {
        let c = self.calls.get() + 1;
        self.calls.set(c);
        if c > self.budget.get() { self.budget.set(u64::MAX); panic!("SIM-BUDGET exceeded"); }
        if let Some(n) = self.panic_at.get() {
            if c == n {
                self.panic_at.set(None);
                panic!("SIM-INJECTED panic at db call {} ({})", c, _what);
            }
        }
    }
}

impl UnificationDatabase<ChalkIr> for SimDb {
    fn fn_def_variance(&self, id: FnDefId<ChalkIr>) -> Variances<ChalkIr> {
        self.tick("fn_def_variance");
        self.p.fn_def_variance(id)
    }
    fn adt_variance(&self, id: AdtId<ChalkIr>) -> Variances<ChalkIr> {
        self.tick("adt_variance");
        self.p.adt_variance(id)
    }
}

macro_rules! deleg {
    ($name:ident ( $($a:ident : $t:ty),* ) -> $r:ty) => {
        fn $name(&self, $($a: $t),*) -> $r { self.tick(stringify!($name)); self.p.$name($($a),*) }
    };
}

impl RustIrDatabase<ChalkIr> for SimDb {
    deleg!(custom_clauses() -> Vec<ProgramClause<ChalkIr>>);
    deleg!(associated_ty_data(ty: AssocTypeId<ChalkIr>) -> Arc<AssociatedTyDatum<ChalkIr>>);
    deleg!(trait_datum(id: TraitId<ChalkIr>) -> Arc<TraitDatum<ChalkIr>>);
    deleg!(adt_datum(id: AdtId<ChalkIr>) -> Arc<AdtDatum<ChalkIr>>);
    deleg!(coroutine_datum(id: CoroutineId<ChalkIr>) -> Arc<CoroutineDatum<ChalkIr>>);
    deleg!(coroutine_witness_datum(id: CoroutineId<ChalkIr>) -> Arc<CoroutineWitnessDatum<ChalkIr>>);
    deleg!(adt_repr(id: AdtId<ChalkIr>) -> Arc<AdtRepr<ChalkIr>>);
    deleg!(adt_size_align(id: AdtId<ChalkIr>) -> Arc<AdtSizeAlign>);
    deleg!(fn_def_datum(id: FnDefId<ChalkIr>) -> Arc<FnDefDatum<ChalkIr>>);
    deleg!(impl_datum(id: ImplId<ChalkIr>) -> Arc<ImplDatum<ChalkIr>>);
    deleg!(associated_ty_from_impl(i: ImplId<ChalkIr>, a: AssocTypeId<ChalkIr>) -> Option<AssociatedTyValueId<ChalkIr>>);
    deleg!(associated_ty_value(id: AssociatedTyValueId<ChalkIr>) -> Arc<AssociatedTyValue<ChalkIr>>);
    deleg!(opaque_ty_data(id: OpaqueTyId<ChalkIr>) -> Arc<OpaqueTyDatum<ChalkIr>>);
    deleg!(hidden_opaque_type(id: OpaqueTyId<ChalkIr>) -> Ty<ChalkIr>);
    fn impls_for_trait(&self, t: TraitId<ChalkIr>, p: &[GenericArg<ChalkIr>], b: &CanonicalVarKinds<ChalkIr>) -> Vec<ImplId<ChalkIr>> {
        self.tick("impls_for_trait");
        if self.superset.get() {
            let mut v: Vec<ImplId<ChalkIr>> = self.p.impl_data.iter().filter(|(_, d)| d.trait_id() == t).map(|(&i, _)| i).collect();
            v.reverse();
            v
        } else {
            let filtered = self.p.impls_for_trait(t, p, b);
            if self.seam_on.get() {
                use chalk_solve::infer::InferenceTable;
                let all: Vec<ImplId<ChalkIr>> = self.p.impl_data.iter().filter(|(_, d)| d.trait_id() == t).map(|(&i, _)| i).collect();
                for id in all {
                    if filtered.contains(&id) { continue; }
                    let max_u = b.iter(ChalkIr).map(|k| k.skip_kind().counter).max().unwrap_or(0);
                    let params = Substitution::from_iter(ChalkIr, p.iter().cloned());
                    // placeholders may live in higher universes than any binder: be generous
                    let (mut table, _, params) = InferenceTable::from_canonical(ChalkIr, max_u + 8, Canonical { binders: b.clone(), value: params });
                    let datum = self.p.impl_data[&id].clone();
                    let bound = table.instantiate_binders_existentially(ChalkIr, datum.binders.clone());
                    let env = Environment::new(ChalkIr);
                    let ok = table.relate(ChalkIr, &*self.p, &env, Variance::Invariant, params.as_slice(ChalkIr), bound.trait_ref.substitution.as_slice(ChalkIr)).is_ok();
                    self.seam_checked.set(self.seam_checked.get() + 1);
                    if ok { self.seam_bad.set(self.seam_bad.get() + 1); eprintln!("C18-SEAM filtered-out impl {:?} unifies with {:?}", bound.trait_ref, params); }
                }
            }
            filtered
        }
    }
    deleg!(local_impls_to_coherence_check(t: TraitId<ChalkIr>) -> Vec<ImplId<ChalkIr>>);
    deleg!(impl_provided_for(t: TraitId<ChalkIr>, ty: &TyKind<ChalkIr>) -> bool);
    deleg!(well_known_trait_id(w: WellKnownTrait) -> Option<TraitId<ChalkIr>>);
    deleg!(well_known_assoc_type_id(w: WellKnownAssocType) -> Option<AssocTypeId<ChalkIr>>);
    fn program_clauses_for_env(&self, environment: &Environment<ChalkIr>) -> ProgramClauses<ChalkIr> {
        self.tick("program_clauses_for_env");
        chalk_solve::program_clauses_for_env(self, environment)
    }
    fn interner(&self) -> ChalkIr {
        self.tick("interner");
        ChalkIr
    }
    deleg!(is_object_safe(t: TraitId<ChalkIr>) -> bool);
    deleg!(closure_kind(c: ClosureId<ChalkIr>, s: &Substitution<ChalkIr>) -> ClosureKind);
    deleg!(closure_inputs_and_output(c: ClosureId<ChalkIr>, s: &Substitution<ChalkIr>) -> Binders<FnDefInputsAndOutputDatum<ChalkIr>>);
    deleg!(closure_upvars(c: ClosureId<ChalkIr>, s: &Substitution<ChalkIr>) -> Binders<Ty<ChalkIr>>);
    deleg!(closure_fn_substitution(c: ClosureId<ChalkIr>, s: &Substitution<ChalkIr>) -> Substitution<ChalkIr>);
    fn unification_database(&self) -> &dyn UnificationDatabase<ChalkIr> {
        self
    }
    deleg!(discriminant_type(ty: Ty<ChalkIr>) -> Ty<ChalkIr>);
    deleg!(trait_name(t: TraitId<ChalkIr>) -> String);
    deleg!(adt_name(t: AdtId<ChalkIr>) -> String);
    deleg!(assoc_type_name(t: AssocTypeId<ChalkIr>) -> String);
    deleg!(opaque_type_name(t: OpaqueTyId<ChalkIr>) -> String);
    deleg!(fn_def_name(t: FnDefId<ChalkIr>) -> String);
}

fn fmt(s: &Option<Solution<ChalkIr>>) -> String {
    match s {
        Some(v) => v.display(ChalkIr).to_string(),
        None => "No possible solution".to_string(),
    }
}

fn program(text: &str, checked: bool) -> Arc<Program> {
    let db = ChalkDatabase::with(text, SolverChoice::default());
    if checked {
        db.checked_program().unwrap()
    } else {
        db.program_ir().unwrap()
    }
}

fn goal(p: &Arc<Program>, text: &str) -> UCanonical<InEnvironment<Goal<ChalkIr>>> {
    chalk_integration::tls::set_current_program(p, || {
        let g = lower_goal(&*chalk_parse::parse_goal(text).unwrap(), &**p).unwrap();
        g.into_peeled_goal(ChalkIr)
    })
}

fn simdb(p: &Arc<Program>) -> SimDb {
    SimDb { p: p.clone(), calls: Cell::new(0), panic_at: Cell::new(None), budget: Cell::new(u64::MAX), superset: Cell::new(false), seam_checked: Cell::new(0), seam_bad: Cell::new(0), seam_on: Cell::new(false) }
}

fn exp_interrupt(choice: SolverChoice, ptext: &str, gtext: &str) {
    let p = program(ptext, true);
    let g = goal(&p, gtext);
    chalk_integration::tls::set_current_program(&p, || {
        let db = simdb(&p);
        let fresh = choice.into_solver().solve(&db, &g);
        println!("[{:?}] fresh: {}", choice, fmt(&fresh));
        // count should_continue invocations
        let cnt = Cell::new(0u64);
        let _ = choice.into_solver().solve_limited(&db, &g, &|| { cnt.set(cnt.get() + 1); true });
        println!("  should_continue invocations in full solve: {}", cnt.get());
        for k in 1..=cnt.get().min(12) {
            let mut solver = choice.into_solver();
            let c = Cell::new(0u64);
            let lim = solver.solve_limited(&db, &g, &|| { c.set(c.get() + 1); c.get() != k });
            let after = solver.solve(&db, &g);
            println!("  stop@{}: limited={} | later solve={}{}", k, fmt(&lim), fmt(&after), if after != fresh { "   <<< DIFFERS FROM FRESH" } else { "" });
        }
    });
}

fn exp_panic(choice: SolverChoice, ptext: &str, gtext: &str) {
    let p = program(ptext, true);
    let g = goal(&p, gtext);
    chalk_integration::tls::set_current_program(&p, || {
        let db = simdb(&p);
        let fresh = choice.into_solver().solve(&db, &g);
        let total = db.calls.get();
        println!("[{:?}] fresh: {} ({} db calls)", choice, fmt(&fresh), total);
        let mut bad = 0;
        let mut kinds = std::collections::BTreeMap::new();
        for n in 1..=total {
            let db = simdb(&p);
            db.panic_at.set(Some(n));
            let mut solver = choice.into_solver();
            let r = catch_unwind(AssertUnwindSafe(|| solver.solve(&db, &g)));
            assert!(r.is_err());
            let after = catch_unwind(AssertUnwindSafe(|| solver.solve(&db, &g)));
            let desc = match &after {
                Ok(a) if *a == fresh => "same".to_string(),
                Ok(a) => { bad += 1; format!("DIFF: {}", fmt(a)) }
                Err(e) => { bad += 1; format!("PANIC: {}", e.downcast_ref::<String>().cloned().or(e.downcast_ref::<&str>().map(|s| s.to_string())).unwrap_or_default()) }
            };
            *kinds.entry(desc).or_insert(0u64) += 1;
        }
        println!("  crash points: {}, bad: {}, breakdown: {:?}", total, bad, kinds);
    });
}

fn main() {
    std::panic::set_hook(Box::new(|_| {}));
    let which = std::env::args().nth(1).unwrap_or_default();
    let prog1 = "
        struct A {} struct B {} struct C {} struct V<T> {}
        trait Foo {} trait Bar {}
        impl Foo for A {} impl Foo for B {}
        impl<T> Foo for V<T> where T: Foo {}
        impl Bar for A {}
        impl<T> Bar for V<T> where T: Bar, T: Foo {}
    ";
    match which.as_str() {
        "interrupt" => {
            for c in [SolverChoice::slg_default(), SolverChoice::recursive_default()] {
                exp_interrupt(c, prog1, "V<V<A>>: Bar");
                exp_interrupt(c, prog1, "exists<T> { V<T>: Bar }");
                exp_interrupt(c, prog1, "exists<T> { T: Foo }");
            }
        }
        "panic" => {
            for c in [SolverChoice::slg_default(), SolverChoice::recursive_default()] {
                exp_panic(c, prog1, "V<V<A>>: Bar");
                exp_panic(c, prog1, "exists<T> { V<T>: Bar }");
            }
        }
        "coh" => {
            let r = catch_unwind(|| {
                let db = ChalkDatabase::with("
                    struct A {} struct V<T> {}
                    trait Foo {}
                    impl<T> Foo for T {}
                    impl<T> Foo for V<T> {}
                    impl Foo for V<A> {}
                ", SolverChoice::default());
                db.checked_program().map(|_| ()).map_err(|e| e.to_string())
            });
            println!("coherence chain-of-3: {:?}", r.map_err(|e| e.downcast_ref::<String>().cloned()));
        }
        "multi" => {
            let p = program("#[auto] trait Send {} struct A {} struct B {} trait Foo {} impl Foo for A {} impl Foo for B {}", true);
            for gt in ["exists<T> { T: Foo }", "exists<T> { T: Send }", "A: Foo", "B: Send"] {
                let g = goal(&p, gt);
                chalk_integration::tls::set_current_program(&p, || {
                    let db = simdb(&p);
                    let mut solver = SolverChoice::slg_default().into_solver();
                    let n = Cell::new(0);
                    let done = solver.solve_multiple(&db, &g, &mut |r, more| {
                        n.set(n.get() + 1);
                        if n.get() <= 5 { println!("  {} -> {} more={}", gt, r.as_ref().map(|v| v.display(ChalkIr)), more); }
                        n.get() < 1000
                    });
                    println!("{}: callbacks={} completed={}", gt, n.get(), done);
                });
            }
        }
        "perm" => { std::thread::Builder::new().stack_size(1usize<<30).spawn(perm).unwrap().join().unwrap(); }
        "sup" => { std::thread::Builder::new().stack_size(1usize<<30).spawn(sup).unwrap().join().unwrap(); }
        "log" => { std::thread::Builder::new().stack_size(1usize<<30).spawn(logrep).unwrap().join().unwrap(); }
        "q" => {
            let ptext = std::fs::read_to_string(std::env::args().nth(2).unwrap()).unwrap();
            let gtext = std::fs::read_to_string(std::env::args().nth(3).unwrap()).unwrap();
            let p = try_program(&ptext).expect("program");
            for gt in gtext.lines().filter(|l| !l.trim().is_empty()) {
                let g = match try_goal(&p, gt) { Some(g) => g, None => { println!("{:60} => UNLOWERABLE", gt); continue } };
                chalk_integration::tls::set_current_program(&p, || {
                    let db = simdb(&p);
                    let a = run_solve(&mut SolverChoice::slg_default().into_solver(), &db, &g);
                    println!("{:70} => slg: {}", gt, rfmt(&a));
                    let b = run_solve(&mut SolverChoice::recursive_default().into_solver(), &db, &g);
                    println!("{:70} => rec: {}", gt, rfmt(&b));
                });
            }
        }
        "pcorpus" => { std::thread::Builder::new().stack_size(1usize<<30).spawn(pcorpus).unwrap().join().unwrap(); }
        "icorpus" => { std::thread::Builder::new().stack_size(1usize<<30).spawn(icorpus).unwrap().join().unwrap(); }
        "batch" => { std::thread::Builder::new().stack_size(1usize<<30).spawn(batch).unwrap().join().unwrap(); }
        "mcorpus" => { std::thread::Builder::new().stack_size(1usize<<30).spawn(mcorpus).unwrap().join().unwrap(); }
        "corpus" => { std::thread::Builder::new().stack_size(2usize<<30).spawn(corpus).unwrap().join().unwrap(); }
        _ => println!("usage"),
    }
}


fn try_program(text: &str) -> Option<Arc<Program>> {
    let t = text.to_string();
    catch_unwind(move || {
        let db = ChalkDatabase::with(&t, SolverChoice::default());
        db.program_ir().ok()
    }).ok().flatten()
}

fn try_goal(p: &Arc<Program>, text: &str) -> Option<UCanonical<InEnvironment<Goal<ChalkIr>>>> {
    let p2 = p.clone();
    let t = text.to_string();
    catch_unwind(AssertUnwindSafe(move || {
        chalk_integration::tls::set_current_program(&p2, || {
            let g = lower_goal(&*chalk_parse::parse_goal(&t).ok()?, &*p2).ok()?;
            Some(g.into_peeled_goal(ChalkIr))
        })
    })).ok().flatten()
}

type G = UCanonical<InEnvironment<Goal<ChalkIr>>>;
#[derive(Clone, PartialEq, Debug)]
enum R { Ok(Option<Solution<ChalkIr>>), Panic(String) }

fn run_solve(solver: &mut Box<dyn Solver<ChalkIr>>, db: &SimDb, g: &G) -> R {
    db.calls.set(0); db.budget.set(3_000_000);
    match catch_unwind(AssertUnwindSafe(|| solver.solve(db, g))) {
        Ok(s) => R::Ok(s),
        Err(e) => R::Panic(e.downcast_ref::<String>().cloned().or(e.downcast_ref::<&str>().map(|s| s.to_string())).unwrap_or_default()),
    }
}
fn rfmt(r: &R) -> String { match r { R::Ok(s) => fmt(s), R::Panic(m) => format!("PANIC({})", m.chars().take(60).collect::<String>()) } }

fn corpus() {
    let text = std::fs::read_to_string("/root/scratch/corpus.txt").unwrap();
    let mut entries: Vec<(String, String, Vec<String>)> = vec![];
    for line in text.lines() {
        let parts: Vec<&str> = line.splitn(4, '\t').collect();
        if parts[0] == "P" { entries.push((parts[1].to_string(), parts[3].to_string(), vec![])); }
        else { entries.last_mut().unwrap().2.push(parts[1].to_string()); }
    }
    let configs = [
        ("slg", SolverChoice::slg_default()),
        ("rec", SolverChoice::recursive_default()),
        ("rec-nocache", SolverChoice::Recursive { overflow_depth: 100, caching_enabled: false, max_size: 30 }),
    ];
    let (mut nprog, mut ngoal) = (0, 0);
    let mut c10 = 0; let mut c10_total = 0;
    let mut cache_diff = 0;
    let mut c04 = 0;
    let mut c11 = 0; let mut c11_total = 0; let mut c11_lim_bad = 0;
    let mut c03_dup = 0; let mut c03_total = 0; let mut c03_flag = 0;
    let mut fresh_panics = 0;
    for (file, ptext, goals) in &entries {
        let p = match try_program(ptext) { Some(p) => p, None => continue };
        nprog += 1;
        if let Ok(v) = std::env::var("ONLY") { if v.parse::<usize>().unwrap() != nprog { continue; } }
        if let Ok(v) = std::env::var("FROM") { if v.parse::<usize>().unwrap() > nprog { continue; } }
        eprintln!("prog #{} {} goals={}", nprog, file, goals.len());
        let gs: Vec<(String, G)> = goals.iter().filter_map(|g| try_goal(&p, g).map(|x| (g.clone(), x))).collect();
        ngoal += gs.len();
        chalk_integration::tls::set_current_program(&p, || {
            let db = simdb(&p);
            // fresh answers
            let mut fresh: Vec<Vec<R>> = vec![];
            for (cn, c) in &configs {
                eprintln!("  fresh {}", cn);
                fresh.push(gs.iter().map(|(_, g)| run_solve(&mut c.into_solver(), &db, g)).collect());
            }
            for (ci, (cname, _)) in configs.iter().enumerate() {
                for (gi, r) in fresh[ci].iter().enumerate() {
                    if let R::Panic(m) = r { fresh_panics += 1; println!("FRESH-PANIC {} {} [{}] goal={} : {}", file, cname, m.chars().take(80).collect::<String>(), gs[gi].0, ""); }
                }
            }
            // cache on vs off
            for gi in 0..gs.len() {
                if fresh[1][gi] != fresh[2][gi] { cache_diff += 1; println!("CACHE-DIFF {} goal={} on={} off={}", file, gs[gi].0, rfmt(&fresh[1][gi]), rfmt(&fresh[2][gi])); }
            }
            // C04 compat
            for gi in 0..gs.len() {
                if let (R::Ok(a), R::Ok(b)) = (&fresh[0][gi], &fresh[1][gi]) {
                    let bad = match (a, b) {
                        (None, Some(Solution::Unique(_))) | (Some(Solution::Unique(_)), None) => true,
                        (Some(Solution::Unique(x)), Some(Solution::Unique(y))) => x.value.subst != y.value.subst,
                        _ => false,
                    };
                    if bad { c04 += 1; println!("C04 {} goal={} slg={} rec={}", file, gs[gi].0, fmt(a), fmt(b)); }
                }
            }
            // C10: warm solver, goals forward then reverse then forward again
            for (ci, (cname, c)) in configs.iter().enumerate() {
                let mut solver = c.into_solver();
                let order: Vec<usize> = (0..gs.len()).chain((0..gs.len()).rev()).chain(0..gs.len()).collect();
                let mut poisoned = false;
                for gi in order {
                    if poisoned { break; }
                    if let R::Panic(_) = fresh[ci][gi] { continue; }
                    let r = run_solve(&mut solver, &db, &gs[gi].1);
                    c10_total += 1;
                    if let R::Panic(_) = r { poisoned = true; }
                    if r != fresh[ci][gi] { c10 += 1; println!("C10 {} {} goal={} warm={} fresh={}", file, cname, gs[gi].0, rfmt(&r), rfmt(&fresh[ci][gi])); }
                }
            }
            // C11 on SLG: interrupt at k, then later solve must equal fresh
            for gi in 0..gs.len() {
                if let R::Panic(_) = fresh[0][gi] { continue; }
                let cnt = Cell::new(0u64);
                let _ = catch_unwind(AssertUnwindSafe(|| configs[0].1.into_solver().solve_limited(&db, &gs[gi].1, &|| { cnt.set(cnt.get() + 1); true })));
                for k in 1..=cnt.get().min(6) {
                    let mut solver = configs[0].1.into_solver();
                    let c = Cell::new(0u64);
                    let lim = catch_unwind(AssertUnwindSafe(|| solver.solve_limited(&db, &gs[gi].1, &|| { c.set(c.get() + 1); c.get() < k })));
                    let after = run_solve(&mut solver, &db, &gs[gi].1);
                    c11_total += 1;
                    if after != fresh[0][gi] { c11 += 1; println!("C11-after {} goal={} k={} after={} fresh={}", file, gs[gi].0, k, rfmt(&after), rfmt(&fresh[0][gi])); }
                    if let (Ok(l), R::Ok(f)) = (&lim, &fresh[0][gi]) {
                        let bad = match (l, f) {
                            (a, b) if a == b => false,
                            (Some(Solution::Ambig(chalk_solve::Guidance::Definite(_))), _) => false, // would need instance check
                            (Some(Solution::Ambig(_)), _) => false,
                            _ => true,
                        };
                        if bad { c11_lim_bad += 1; println!("C11-lim {} goal={} k={} lim={} fresh={}", file, gs[gi].0, k, fmt(l), fmt(f)); }
                    }
                }
            }
            // C03: enumeration
            for gi in 0..gs.len() {
                if let R::Panic(_) = fresh[0][gi] { continue; }
                let mut solver = configs[0].1.into_solver();
                let mut seen: Vec<String> = vec![];
                let mut flags: Vec<bool> = vec![];
                let res = catch_unwind(AssertUnwindSafe(|| solver.solve_multiple(&db, &gs[gi].1, &mut |r, more| {
                    seen.push(format!("{}", r.as_ref().map(|v| v.display(ChalkIr))));
                    flags.push(more);
                    seen.len() < 40
                })));
                c03_total += 1;
                let nonfl: Vec<&String> = seen.iter().filter(|s| *s != "Floundered").collect();
                let mut d = nonfl.clone(); d.sort(); d.dedup();
                if d.len() != nonfl.len() { c03_dup += 1; println!("C03-dup {} goal={} answers={:?}", file, gs[gi].0, seen); }
                if let Ok(done) = res {
                    // flag accuracy: all but last should be true when completed; last false
                    if done { let ok = flags.iter().enumerate().all(|(i, f)| *f == (i + 1 < flags.len())); if !ok { c03_flag += 1; println!("C03-flag {} goal={} flags={:?} answers={:?}", file, gs[gi].0, flags, seen); } }
                } else { println!("C03-panic {} goal={}", file, gs[gi].0); }
            }
        });
    }
    println!("programs={} goals={} fresh_panics={} cache_diff={} c04={} c10={}/{} c11_after={}/{} c11_lim_bad={} c03_dup={}/{} c03_flag={}", nprog, ngoal, fresh_panics, cache_diff, c04, c10, c10_total, c11, c11_total, c11_lim_bad, c03_dup, c03_total, c03_flag);
}


fn split_items(text: &str) -> Vec<String> {
    let mut items = vec![]; let mut cur = String::new(); let mut depth = 0i32; let mut angle_paren = 0i32;
    for ch in text.chars() {
        cur.push(ch);
        match ch {
            '{' => depth += 1,
            '}' => { depth -= 1; if depth == 0 { items.push(cur.trim().to_string()); cur.clear(); } }
            '(' | '[' => angle_paren += 1,
            ')' | ']' => angle_paren -= 1,
            ';' if depth == 0 && angle_paren == 0 => { items.push(cur.trim().to_string()); cur.clear(); }
            _ => {}
        }
    }
    if !cur.trim().is_empty() { items.push(cur.trim().to_string()); }
    items
}

fn names_fmt(p: &Arc<Program>, r: &R) -> String {
    chalk_integration::tls::set_current_program(p, || names_fmt_in(r))
}
fn names_fmt_in(r: &R) -> String {
    (|| match r {
        R::Ok(Some(Solution::Unique(u))) => {
            let mut cs: Vec<String> = u.value.constraints.as_slice(ChalkIr).iter().map(|c| format!("{:?}", c)).collect();
            cs.sort();
            format!("Unique; {:?} {:?} {:?}", u.binders, u.value.subst, cs)
        }
        other => rfmt(other),
    })()
}

fn perm() {
    let text = std::fs::read_to_string("/root/scratch/corpus.txt").unwrap();
    let mut entries: Vec<(String, String, Vec<String>)> = vec![];
    for line in text.lines() {
        let parts: Vec<&str> = line.splitn(4, '\t').collect();
        if parts[0] == "P" { entries.push((parts[1].to_string(), parts[3].to_string(), vec![])); }
        else { entries.last_mut().unwrap().2.push(parts[1].to_string()); }
    }
    let configs = [("slg", SolverChoice::slg_default()), ("rec", SolverChoice::recursive_default())];
    let (mut total, mut diff, mut skipped, mut nperm) = (0, 0, 0, 0);
    for (idx, (file, ptext, goals)) in entries.iter().enumerate() {
        if idx == 161 || file == "negation.rs" { continue; }
        let p0 = match try_program(ptext) { Some(p) => p, None => continue };
        let items = split_items(ptext);
        if items.len() < 2 { continue; }
        let mut variants: Vec<Vec<String>> = vec![];
        let mut rev = items.clone(); rev.reverse(); variants.push(rev);
        let mut rot = items.clone(); rot.rotate_left(items.len() / 2); variants.push(rot);
        for v in variants {
            let vt = v.join(" ");
            let p1 = match try_program(&vt) { Some(p) => p, None => { skipped += 1; continue } };
            nperm += 1;
            for gt in goals {
                let (g0, g1) = match (try_goal(&p0, gt), try_goal(&p1, gt)) { (Some(a), Some(b)) => (a, b), _ => continue };
                for (cname, c) in &configs {
                    let r0 = chalk_integration::tls::set_current_program(&p0, || run_solve(&mut c.into_solver(), &simdb(&p0), &g0));
                    let r1 = chalk_integration::tls::set_current_program(&p1, || run_solve(&mut c.into_solver(), &simdb(&p1), &g1));
                    let (s0, s1) = (names_fmt(&p0, &r0), names_fmt(&p1, &r1));
                    total += 1;
                    if s0 != s1 { diff += 1; println!("C13 {} {} goal={}\n    orig={}\n    perm={}", file, cname, gt, s0.chars().take(300).collect::<String>(), s1.chars().take(300).collect::<String>()); }
                }
            }
        }
    }
    println!("perm variants={} skipped(unparsable)={} comparisons={} diffs={}", nperm, skipped, total, diff);
}


fn load() -> Vec<(String, String, Vec<String>)> {
    let text = std::fs::read_to_string(std::env::var("CORPUS").unwrap_or("/root/scratch/corpus.txt".to_string())).unwrap();
    let mut entries: Vec<(String, String, Vec<String>)> = vec![];
    for line in text.lines() {
        let parts: Vec<&str> = line.splitn(4, '\t').collect();
        if parts[0] == "P" { entries.push((parts[1].to_string(), parts[3].to_string(), vec![])); }
        else { entries.last_mut().unwrap().2.push(parts[1].to_string()); }
    }
    entries
}

fn sup() {
    let configs = [("slg", SolverChoice::slg_default()), ("rec", SolverChoice::recursive_default())];
    let (mut total, mut diff) = (0, 0);
    let (mut sc, mut sb) = (0u64, 0u64);
    for (idx, (file, ptext, goals)) in load().iter().enumerate() {
        if idx == 161 || file == "negation.rs" { continue; }
        let p = match try_program(ptext) { Some(p) => p, None => continue };
        for gt in goals {
            let g = match try_goal(&p, gt) { Some(g) => g, None => continue };
            chalk_integration::tls::set_current_program(&p, || {
                for (cname, c) in &configs {
                    let db = simdb(&p);
                    db.seam_on.set(true);
                    let r0 = run_solve(&mut c.into_solver(), &db, &g);
                    db.seam_on.set(false);
                    sc += db.seam_checked.get(); sb += db.seam_bad.get();
                    db.superset.set(true);
                    let r1 = run_solve(&mut c.into_solver(), &db, &g);
                    total += 1;
                    if r0 != r1 { diff += 1; println!("C18 {} {} goal={}\n   filt={}\n   sup ={}", file, cname, gt, rfmt(&r0).chars().take(300).collect::<String>(), rfmt(&r1).chars().take(300).collect::<String>()); }
                }
            });
        }
    }
    println!("superset comparisons={} diffs={} | seam: filtered-out impls checked with the real unifier={} unifiable={}", total, diff, sc, sb);
}

fn logrep() {
    use chalk_solve::logging_db::LoggingRustIrDatabase;
    let configs = [("slg", SolverChoice::slg_default()), ("rec", SolverChoice::recursive_default())];
    let (mut total, mut diff, mut unparsable, mut nprog) = (0, 0, 0, 0);
    for (idx, (file, ptext, goals)) in load().iter().enumerate() {
        if idx == 161 || file == "negation.rs" { continue; }
        let p = match try_program(ptext) { Some(p) => p, None => continue };
        let gs: Vec<(String, G)> = goals.iter().filter_map(|g| try_goal(&p, g).map(|x| (g.clone(), x))).collect();
        if gs.is_empty() { continue; }
        nprog += 1;
        let res = catch_unwind(AssertUnwindSafe(|| chalk_integration::tls::set_current_program(&p, || {
            let db = simdb(&p);
            let wrapped = LoggingRustIrDatabase::<ChalkIr, SimDb, &SimDb>::new(&db);
            let mut orig = vec![];
            for (_, g) in &gs { for (_, c) in &configs {
                db.calls.set(0); db.budget.set(3_000_000);
                let r = match catch_unwind(AssertUnwindSafe(|| c.into_solver().solve(&wrapped, g))) { Ok(s) => R::Ok(s), Err(_) => R::Panic("p".into()) };
                orig.push(names_fmt_in(&r));
            } }
            (orig, wrapped.to_string())
        })));
        let (orig, text) = match res { Ok(x) => x, Err(_) => { println!("C23-PANIC-in-logging {} ", file); continue } };
        let p1 = match try_program(&text) { Some(p) => p, None => { unparsable += 1; println!("C23-UNPARSABLE {} program={} \n   logged={}", file, ptext.chars().take(200).collect::<String>(), text.replace('\n', " ").chars().take(400).collect::<String>()); continue } };
        let mut k = 0;
        for (gt, _) in &gs {
            let g1 = try_goal(&p1, gt);
            for (cname, c) in &configs {
                let s0 = &orig[k]; k += 1;
                total += 1;
                let s1 = match &g1 { Some(g1) => { let r = chalk_integration::tls::set_current_program(&p1, || run_solve(&mut c.into_solver(), &simdb(&p1), g1)); names_fmt(&p1, &r) } None => "GOAL-UNLOWERABLE".to_string() };
                if *s0 != s1 { diff += 1; println!("C23 {} {} goal={}\n   orig={}\n   repl={}", file, cname, gt, s0.chars().take(300).collect::<String>(), s1.chars().take(300).collect::<String>()); }
            }
        }
    }
    println!("logging programs={} unparsable={} comparisons={} diffs={}", nprog, unparsable, total, diff);
}


fn pcorpus() {
    let configs = [("slg", SolverChoice::slg_default()), ("rec", SolverChoice::recursive_default())];
    let cap: u64 = std::env::var("CAP").ok().and_then(|v| v.parse().ok()).unwrap_or(120);
    let mut tot = [0u64; 2]; let mut bad = [0u64; 2];
    let mut badgoals: std::collections::BTreeMap<String, u64> = Default::default();
    for (idx, (file, ptext, goals)) in load().iter().enumerate() {
        if idx == 161 || file == "negation.rs" { continue; }
        let p = match try_program(ptext) { Some(p) => p, None => continue };
        for gt in goals {
            let g = match try_goal(&p, gt) { Some(g) => g, None => continue };
            chalk_integration::tls::set_current_program(&p, || {
                for (ci, (cname, c)) in configs.iter().enumerate() {
                    let db = simdb(&p);
                    let fresh = run_solve(&mut c.into_solver(), &db, &g);
                    if let R::Panic(_) = fresh { continue; }
                    let total = db.calls.get();
                    let stride = std::cmp::max(1, total / cap);
                    let mut n = 1;
                    while n <= total {
                        let db = simdb(&p);
                        db.panic_at.set(Some(n));
                        let mut solver = c.into_solver();
                        let r = catch_unwind(AssertUnwindSafe(|| solver.solve(&db, &g)));
                        if r.is_err() {
                            db.panic_at.set(None);
                            let after = match catch_unwind(AssertUnwindSafe(|| solver.solve(&db, &g))) { Ok(s) => R::Ok(s), Err(e) => R::Panic(e.downcast_ref::<String>().cloned().or(e.downcast_ref::<&str>().map(|s| s.to_string())).unwrap_or_default()) };
                            tot[ci] += 1;
                            if after != fresh { bad[ci] += 1; let k = format!("{} {} goal={} fresh={} after={}", file, cname, gt, rfmt(&fresh), rfmt(&after)); *badgoals.entry(k.chars().take(260).collect()).or_insert(0) += 1; }
                        }
                        n += stride;
                    }
                }
            });
        }
    }
    for (k, v) in badgoals.iter().take(40) { println!("{}x {}", v, k); }
    println!("crash points slg={} bad={} | rec={} bad={} | distinct bad (goal,solver,symptom)={}", tot[0], bad[0], tot[1], bad[1], badgoals.len());
}


fn icorpus() {
    use chalk_solve::Guidance;
    let configs = [("slg", SolverChoice::slg_default()), ("rec", SolverChoice::recursive_default())];
    let cap: u64 = 40;
    let mut tot = [0u64; 2]; let mut bad_after = [0u64; 2]; let mut bad_lim = [0u64; 2];
    let mut badgoals: std::collections::BTreeMap<String, u64> = Default::default();
    for (idx, (file, ptext, goals)) in load().iter().enumerate() {
        if idx == 161 || file == "negation.rs" { continue; }
        let p = match try_program(ptext) { Some(p) => p, None => continue };
        for gt in goals {
            let g = match try_goal(&p, gt) { Some(g) => g, None => continue };
            chalk_integration::tls::set_current_program(&p, || {
                for (ci, (cname, c)) in configs.iter().enumerate() {
                    let db = simdb(&p);
                    let fresh = run_solve(&mut c.into_solver(), &db, &g);
                    let f = match &fresh { R::Ok(f) => f.clone(), _ => continue };
                    let cnt = Cell::new(0u64);
                    let _ = catch_unwind(AssertUnwindSafe(|| c.into_solver().solve_limited(&db, &g, &|| { cnt.set(cnt.get() + 1); true })));
                    for mode in 0..2 {
                        for k in 1..=cnt.get().min(cap) {
                            let mut solver = c.into_solver();
                            let cc = Cell::new(0u64);
                            db.calls.set(0); db.budget.set(3_000_000);
                            let lim = catch_unwind(AssertUnwindSafe(|| solver.solve_limited(&db, &g, &|| { cc.set(cc.get() + 1); if mode == 0 { cc.get() != k } else { cc.get() < k } })));
                            let after = run_solve(&mut solver, &db, &g);
                            tot[ci] += 1;
                            if after != fresh { bad_after[ci] += 1; *badgoals.entry(format!("AFTER {} {} goal={} fresh={} after={}", file, cname, gt, rfmt(&fresh), rfmt(&after)).chars().take(240).collect()).or_insert(0) += 1; }
                            if let Ok(l) = &lim {
                                let ok = *l == f || match l { Some(Solution::Ambig(Guidance::Definite(_))) => true /* instance check omitted */, Some(Solution::Ambig(_)) => true, _ => false };
                                if !ok { bad_lim[ci] += 1; *badgoals.entry(format!("LIM {} {} goal={} fresh={} lim={}", file, cname, gt, rfmt(&fresh), fmt(l)).chars().take(240).collect()).or_insert(0) += 1; }
                            }
                        }
                    }
                }
            });
        }
    }
    for (k, v) in badgoals.iter().filter(|(k, _)| k.starts_with("LIM")).take(30) { println!("{}x {}", v, k); }
    for (k, v) in badgoals.iter().filter(|(k, _)| k.starts_with("AFTER")).take(8) { println!("{}x {}", v, k); }
    println!("interrupt schedules slg={} bad_after={} bad_lim={} | rec={} bad_after={} bad_lim={} | distinct={}", tot[0], bad_after[0], bad_lim[0], tot[1], bad_after[1], bad_lim[1], badgoals.len());
}


fn batch() {
    let configs = [("slg", SolverChoice::slg_default()), ("rec", SolverChoice::recursive_default())];
    for (file, ptext, goals) in load().iter() {
        let p = match try_program(ptext) { Some(p) => p, None => { println!("{}\tPROGRAM-ERROR", file); continue } };
        for (gi, gt) in goals.iter().enumerate() {
            let g = match try_goal(&p, gt) { Some(g) => g, None => { println!("{}\t{}\tGOAL-ERROR\tGOAL-ERROR", file, gi); continue } };
            chalk_integration::tls::set_current_program(&p, || {
                let db = simdb(&p);
                let a = run_solve(&mut configs[0].1.into_solver(), &db, &g);
                let b = run_solve(&mut configs[1].1.into_solver(), &db, &g);
                println!("{}\t{}\t{}\t{}", file, gi, rfmt(&a), rfmt(&b));
            });
        }
    }
}


fn enumerate(solver: &mut Box<dyn Solver<ChalkIr>>, db: &SimDb, g: &G, cap: usize) -> Option<(Vec<String>, Vec<bool>, bool)> {
    let mut seen: Vec<String> = vec![]; let mut flags: Vec<bool> = vec![];
    db.calls.set(0); db.budget.set(3_000_000);
    let res = catch_unwind(AssertUnwindSafe(|| solver.solve_multiple(db, g, &mut |r, more| {
        seen.push(format!("{}", r.as_ref().map(|v| v.display(ChalkIr))));
        flags.push(more);
        seen.len() < cap
    })));
    match res { Ok(done) => Some((seen, flags, done)), Err(_) => None }
}

fn mcorpus() {
    let c = SolverChoice::slg_default();
    let (mut total, mut bad, mut goals_n) = (0, 0, 0);
    for (idx, (file, ptext, goals)) in load().iter().enumerate() {
        if idx == 161 || file == "negation.rs" { continue; }
        let p = match try_program(ptext) { Some(p) => p, None => continue };
        for gt in goals {
            let g = match try_goal(&p, gt) { Some(g) => g, None => continue };
            chalk_integration::tls::set_current_program(&p, || {
                let db = simdb(&p);
                let fresh = match enumerate(&mut c.into_solver(), &db, &g, 24) { Some(x) => x, None => return };
                goals_n += 1;
                for j in 1..=fresh.0.len() {
                    let mut solver = c.into_solver();
                    let first = match enumerate(&mut solver, &db, &g, j) { Some(x) => x, None => continue };
                    // resume on the same solver: full enumeration again
                    let second = match enumerate(&mut solver, &db, &g, 24) { Some(x) => x, None => continue };
                    total += 1;
                    let prefix_ok = first.0[..] == fresh.0[..first.0.len().min(fresh.0.len())];
                    if !prefix_ok || second.0 != fresh.0 || second.1 != fresh.1 || second.2 != fresh.2 {
                        bad += 1;
                        println!("C03-resume {} goal={} j={}\n   fresh={:?} {:?}\n   first={:?}\n   again={:?} {:?}", file, gt, j, fresh.0, fresh.1, first.0, second.0, second.1);
                    }
                    // also: aggregated solve on the same warm solver equals fresh solve
                }
            });
        }
    }
    println!("enumerated goals={} stop/resume histories={} bad={}", goals_n, total, bad);
}
