// Throw-away probe: exhaustive fault positions for in-place Vec/Box folding via the public TypeFoldable impls.
use chalk_integration::interner::ChalkIr;
use chalk_ir::fold::{FallibleTypeFolder, TypeFoldable};
use chalk_ir::DebruijnIndex;
use std::cell::RefCell;
use std::collections::BTreeMap;

thread_local!(static DROPS: RefCell<BTreeMap<u32, u32>> = RefCell::new(BTreeMap::new()));
thread_local!(static PLAN: RefCell<(i64, u8)> = RefCell::new((-1, 0))); // (fail position, mode 1=Err 2=panic)
thread_local!(static SEEN: RefCell<i64> = RefCell::new(0));

#[derive(Debug)]
struct Elem(u32, Box<u32>);
impl Drop for Elem { fn drop(&mut self) { DROPS.with(|d| *d.borrow_mut().entry(self.0).or_insert(0) += 1); } }
impl TypeFoldable<ChalkIr> for Elem {
    fn try_fold_with<E>(self, f: &mut dyn FallibleTypeFolder<ChalkIr, Error = E>, _b: DebruijnIndex) -> Result<Self, E> {
        let i = SEEN.with(|s| { let v = *s.borrow(); *s.borrow_mut() += 1; v });
        let (pos, mode) = PLAN.with(|p| *p.borrow());
        if i == pos {
            if mode == 2 { panic!("fold fault"); }
            // produce an error through the folder (it errors on any placeholder const... simpler: use a helper)
            return Err(make_err(f));
        }
        Ok(self)
    }
}
fn make_err<E>(f: &mut dyn FallibleTypeFolder<ChalkIr, Error = E>) -> E {
    // F::try_fold_free_var_ty is overridden below to return Err(())
    match f.try_fold_free_var_ty(chalk_ir::BoundVar::new(DebruijnIndex::INNERMOST, 0), DebruijnIndex::INNERMOST) { Err(e) => e, Ok(_) => panic!("folder did not fail") }
}
struct F;
impl FallibleTypeFolder<ChalkIr> for F {
    type Error = ();
    fn as_dyn(&mut self) -> &mut dyn FallibleTypeFolder<ChalkIr, Error = ()> { self }
    fn interner(&self) -> ChalkIr { ChalkIr }
    fn try_fold_free_var_ty(&mut self, _b: chalk_ir::BoundVar, _o: DebruijnIndex) -> Result<chalk_ir::Ty<ChalkIr>, ()> { Err(()) }
}
fn main() {
    std::panic::set_hook(Box::new(|_| {}));
    let (mut cases, mut bad) = (0, 0);
    for boxed in [false, true] {
        for len in 0..=10u32 {
            if boxed && len != 1 { continue; }
            for mode in 0..=2u8 {
                for pos in 0..(len.max(1) as i64) {
                    if mode == 0 && pos > 0 { continue; }
                    DROPS.with(|d| d.borrow_mut().clear()); SEEN.with(|s| *s.borrow_mut() = 0);
                    PLAN.with(|p| *p.borrow_mut() = (if mode == 0 { -1 } else { pos }, mode));
                    let v: Vec<Elem> = (0..len).map(|i| Elem(i, Box::new(i))).collect();
                    let res = std::panic::catch_unwind(move || {
                        if boxed { let b = Box::new(v.into_iter().next().unwrap()); b.try_fold_with(&mut F, DebruijnIndex::INNERMOST).map(|b| vec![*b]) }
                        else { v.try_fold_with(&mut F, DebruijnIndex::INNERMOST) }
                    });
                    cases += 1;
                    let failed = mode != 0 && len > 0;
                    let ok = match &res {
                        Ok(Ok(out)) => !failed && out.len() == len as usize && DROPS.with(|d| d.borrow().is_empty()),
                        Ok(Err(())) => failed && mode == 1,
                        Err(_) => failed && mode == 2,
                    };
                    drop(res);
                    let all_once = DROPS.with(|d| (0..len).all(|i| d.borrow().get(&i) == Some(&1)) && d.borrow().len() == len as usize);
                    if !ok || !all_once { bad += 1; println!("BAD boxed={} len={} mode={} pos={} drops={:?}", boxed, len, mode, pos, DROPS.with(|d| d.borrow().clone())); }
                }
            }
        }
    }
    println!("cases={} bad={}", cases, bad);
}
