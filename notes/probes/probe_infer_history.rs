// Throw-away probe (design phase): random operation histories on InferenceTable vs a reference unifier.
use chalk_integration::interner::{ChalkIr, RawId};
use chalk_ir::*;
use chalk_solve::infer::InferenceTable;

#[derive(Debug)]
struct Db;
const ARITY: [usize; 4] = [1, 2, 0, 0];
impl UnificationDatabase<ChalkIr> for Db {
    fn fn_def_variance(&self, _: FnDefId<ChalkIr>) -> Variances<ChalkIr> { Variances::empty(ChalkIr) }
    fn adt_variance(&self, id: AdtId<ChalkIr>) -> Variances<ChalkIr> {
        Variances::from_iter(ChalkIr, vec![Variance::Invariant; ARITY[id.0.index as usize]])
    }
}

#[derive(Clone, Debug, PartialEq, Eq)]
enum T { Var(usize), Ph(usize, usize), App(usize, Vec<T>), Canon(usize) }

struct Rng(u64);
impl Rng {
    fn next(&mut self) -> u64 { self.0 ^= self.0 << 13; self.0 ^= self.0 >> 7; self.0 ^= self.0 << 17; self.0 }
    fn below(&mut self, n: usize) -> usize { (self.next() % n as u64) as usize }
    fn coin(&mut self, p: u32) -> bool { self.next() % 100 < p as u64 }
}

#[derive(Clone)]
struct Model { bind: Vec<Option<T>>, uni: Vec<usize>, max_u: usize }
impl Model {
    fn walk(&self, t: &T) -> T {
        let mut t = t.clone();
        loop { match &t { T::Var(v) => match &self.bind[*v] { Some(b) => t = b.clone(), None => return t }, _ => return t } }
    }
    fn resolve(&self, t: &T) -> T {
        match self.walk(t) { T::App(c, a) => T::App(c, a.iter().map(|x| self.resolve(x)).collect()), o => o }
    }
    fn occurs_and_universe(&mut self, v: usize, u: usize, t: &T) -> bool {
        match self.walk(t) {
            T::Var(w) => { if w == v { return false; } if self.uni[w] > u { self.uni[w] = u; } true }
            T::Ph(pu, _) => pu <= u,
            T::App(_, a) => a.iter().all(|x| self.occurs_and_universe(v, u, x)),
            T::Canon(_) => unreachable!(),
        }
    }
    fn unify(&mut self, a: &T, b: &T) -> bool {
        let (a, b) = (self.walk(a), self.walk(b));
        match (&a, &b) {
            (T::Var(x), T::Var(y)) => { if x != y { let u = self.uni[*x].min(self.uni[*y]); self.uni[*y] = u; self.uni[*x] = u; self.bind[*x] = Some(T::Var(*y)); } true }
            (T::Var(x), t) | (t, T::Var(x)) => { let u = self.uni[*x]; if !self.occurs_and_universe(*x, u, t) { return false; } self.bind[*x] = Some(t.clone()); true }
            (T::Ph(a1, a2), T::Ph(b1, b2)) => a1 == b1 && a2 == b2,
            (T::App(c1, a1), T::App(c2, a2)) => c1 == c2 && a1.iter().zip(a2.iter()).all(|(x, y)| self.unify(x, y)),
            _ => false,
        }
    }
    fn canon(&self) -> (Vec<T>, Vec<usize>) {
        let mut order: Vec<usize> = vec![];
        fn go(m: &Model, t: &T, order: &mut Vec<usize>) -> T {
            match m.walk(t) {
                T::Var(v) => { let i = order.iter().position(|x| *x == v).unwrap_or_else(|| { order.push(v); order.len() - 1 }); T::Canon(i) }
                T::App(c, a) => T::App(c, a.iter().map(|x| go(m, x, order)).collect()),
                o => o,
            }
        }
        let vals = (0..self.bind.len()).map(|v| go(self, &T::Var(v), &mut order)).collect();
        let unis = order.iter().map(|v| self.uni[*v]).collect();
        (vals, unis)
    }
}

fn to_ty(t: &T, vars: &[Ty<ChalkIr>]) -> Ty<ChalkIr> {
    match t {
        T::Var(v) => vars[*v].clone(),
        T::Ph(u, i) => PlaceholderIndex { ui: UniverseIndex { counter: *u }, idx: *i }.to_ty(ChalkIr),
        T::App(c, a) => TyKind::Adt(AdtId(RawId { index: *c as u32 }), Substitution::from_iter(ChalkIr, a.iter().map(|x| to_ty(x, vars)))).intern(ChalkIr),
        T::Canon(_) => unreachable!(),
    }
}
fn from_ty(t: &Ty<ChalkIr>) -> T {
    match t.kind(ChalkIr) {
        TyKind::Adt(id, s) => T::App(id.0.index as usize, s.iter(ChalkIr).map(|a| from_ty(a.assert_ty_ref(ChalkIr))).collect()),
        TyKind::Placeholder(p) => T::Ph(p.ui.counter, p.idx),
        TyKind::BoundVar(b) => T::Canon(b.index),
        other => panic!("unexpected {:?}", other),
    }
}
fn real_canon(table: &mut InferenceTable<ChalkIr>, vars: &[Ty<ChalkIr>]) -> (Vec<T>, Vec<usize>) {
    let s = Substitution::from_iter(ChalkIr, vars.iter().cloned());
    let c = table.canonicalize(ChalkIr, s).quantified;
    let vals = c.value.iter(ChalkIr).map(|a| from_ty(a.assert_ty_ref(ChalkIr))).collect();
    let unis = c.binders.iter(ChalkIr).map(|b| b.skip_kind().counter).collect();
    (vals, unis)
}

fn gen_term(r: &mut Rng, m: &Model, depth: usize) -> T {
    let nv = m.bind.len();
    if nv > 0 && r.coin(35) { return T::Var(r.below(nv)); }
    if m.max_u > 0 && r.coin(15) { return T::Ph(1 + r.below(m.max_u), r.below(2)); }
    let c = if depth == 0 { 2 + r.below(2) } else { r.below(4) };
    T::App(c, (0..ARITY[c]).map(|_| gen_term(r, m, depth.saturating_sub(1))).collect())
}
fn mutate(r: &mut Rng, m: &Model, t: &T) -> T {
    if r.coin(12) { return gen_term(r, m, 1); }
    if r.coin(20) && !m.bind.is_empty() { return T::Var(r.below(m.bind.len())); }
    match t { T::App(c, a) => T::App(*c, a.iter().map(|x| mutate(r, m, x)).collect()), o => o.clone() }
}

fn main() {
    let seeds: u64 = std::env::args().nth(1).and_then(|s| s.parse().ok()).unwrap_or(2000);
    let (mut ops, mut ok_n, mut fail_n, mut bad) = (0u64, 0u64, 0u64, 0u64);
    for seed in 1..=seeds {
        let mut r = Rng(seed.wrapping_mul(0x9E3779B97F4A7C15) | 1);
        let mut table: InferenceTable<ChalkIr> = InferenceTable::new();
        let mut m = Model { bind: vec![], uni: vec![], max_u: 0 };
        let mut vars: Vec<Ty<ChalkIr>> = vec![];
        let env = Environment::new(ChalkIr);
        for step in 0..40 {
            let k = r.below(10);
            if k == 0 && m.max_u < 3 { table.new_universe(); m.max_u += 1; }
            else if k <= 3 && vars.len() < 8 {
                let u = r.below(m.max_u + 1);
                let v = table.new_variable(UniverseIndex { counter: u });
                vars.push(v.to_ty(ChalkIr)); m.bind.push(None); m.uni.push(u);
            } else if !vars.is_empty() {
                let a = gen_term(&mut r, &m, 2); let b = mutate(&mut r, &m, &a);
                let before = real_canon(&mut table, &vars);
                let (ta, tb) = (to_ty(&a, &vars), to_ty(&b, &vars));
                // symmetry on clones
                let rev_ok = table.clone().relate(ChalkIr, &Db, &env, Variance::Invariant, &tb, &ta).is_ok();
                let real_ok = table.relate(ChalkIr, &Db, &env, Variance::Invariant, &ta, &tb).is_ok();
                let mut m2 = m.clone();
                let model_ok = m2.unify(&a, &b);
                if model_ok { m = m2; }
                ops += 1; if real_ok { ok_n += 1 } else { fail_n += 1 }
                let after = real_canon(&mut table, &vars);
                let mc = m.canon();
                let mut why = vec![];
                if real_ok != model_ok { why.push("success differs"); }
                if real_ok != rev_ok { why.push("asymmetric"); }
                if !real_ok && before != after { why.push("state changed by failed relate"); }
                if real_ok == model_ok && after != mc { why.push("canonical state differs from model"); }
                if !why.is_empty() {
                    bad += 1;
                    if bad <= 12 { println!("seed={} step={} {:?}\n  a={:?}\n  b={:?}\n  real_ok={} model_ok={} rev_ok={}\n  real ={:?}\n  model={:?}", seed, step, why, a, b, real_ok, model_ok, rev_ok, after, mc); }
                    break;
                }
            }
        }
    }
    println!("histories={} relate ops={} ok={} fail={} disagreements={}", seeds, ops, ok_n, fail_n, bad);
}
