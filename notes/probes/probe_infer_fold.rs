use chalk_integration::interner::{ChalkIr, RawId};
use chalk_ir::*;
use chalk_solve::infer::InferenceTable;
use chalk_ir::fold::{TypeFoldable, FallibleTypeFolder};

#[derive(Debug)]
struct NoVar;
impl UnificationDatabase<ChalkIr> for NoVar {
    fn fn_def_variance(&self, _: FnDefId<ChalkIr>) -> Variances<ChalkIr> { Variances::empty(ChalkIr) }
    fn adt_variance(&self, _: AdtId<ChalkIr>) -> Variances<ChalkIr> { Variances::from_iter(ChalkIr, vec![Variance::Invariant; 2]) }
}
fn adt(i: u32, args: Vec<Ty<ChalkIr>>) -> Ty<ChalkIr> {
    TyKind::Adt(AdtId(RawId { index: i }), Substitution::from_iter(ChalkIr, args)).intern(ChalkIr)
}
// Drop-tracking foldable element driven through the public Vec<T>: TypeFoldable impl
use std::cell::RefCell;
thread_local!(static DROPS: RefCell<Vec<u32>> = RefCell::new(vec![]));
#[derive(Debug)]
struct Elem(u32);
impl Drop for Elem { fn drop(&mut self) { DROPS.with(|d| d.borrow_mut().push(self.0)); } }
impl TypeFoldable<ChalkIr> for Elem {
    fn try_fold_with<E>(self, _f: &mut dyn FallibleTypeFolder<ChalkIr, Error = E>, _b: DebruijnIndex) -> Result<Self, E> {
        if self.0 == 3 { panic!("fold fault"); }
        Ok(self)
    }
}
struct F;
impl FallibleTypeFolder<ChalkIr> for F {
    type Error = ();
    fn as_dyn(&mut self) -> &mut dyn FallibleTypeFolder<ChalkIr, Error = ()> { self }
    fn interner(&self) -> ChalkIr { ChalkIr }
}
fn main() {
    let i = ChalkIr;
    let mut t: InferenceTable<ChalkIr> = InferenceTable::new();
    let u1 = t.new_universe();
    let a = t.new_variable(UniverseIndex::root());
    let b = t.new_variable(u1);
    let (ta, tb) = (a.to_ty(i), b.to_ty(i));
    let env = Environment::new(i);
    let p1 = PlaceholderIndex { ui: u1, idx: 0 }.to_ty(i);
    let r = t.relate(i, &NoVar, &env, Variance::Invariant, &adt(0, vec![ta.clone(), tb.clone()]), &adt(0, vec![tb.clone(), adt(1, vec![])]));
    println!("relate1 ok={:?}", r.is_ok());
    let before = t.canonicalize(i, (ta.clone(), tb.clone())).quantified;
    let r2 = t.relate(i, &NoVar, &env, Variance::Invariant, &ta, &p1);
    println!("relate2 (universe error expected) ok={:?}", r2.is_ok());
    let after = t.canonicalize(i, (ta.clone(), tb.clone())).quantified;
    println!("state unchanged: {}", before == after);
    println!("probe a = {:?}", t.probe_var(a.into()));
    let v: Vec<Elem> = (0..6).map(Elem).collect();
    let r = std::panic::catch_unwind(|| { let _ = v.try_fold_with(&mut F, DebruijnIndex::INNERMOST); });
    println!("fold panicked={} drops={:?}", r.is_err(), DROPS.with(|d| d.borrow().clone()));
}
