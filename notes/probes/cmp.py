import json, sys
exp = [json.loads(l) for l in open(sys.argv[1])]
out = {}
for l in open(sys.argv[2]):
    p = l.rstrip('\n').split('\t')
    if len(p) < 4: continue
    out[(p[0], int(p[1]))] = (p[2], p[3])
stats = dict(closed=0, agree=0, refU=0, ambig=0, mismatch=0, err=0, big=0, panic=0, ex=0, ex_bad=0)
def cls(s):
    if s.startswith('Unique'): return 'T'
    if s.startswith('No possible'): return 'F'
    if s.startswith('Ambig'): return 'A'
    if s.startswith('PANIC'): return 'P'
    return 'E'
for e in exp:
    for gi, g in enumerate(e['goals']):
        k = ('w%d' % e['world'], gi)
        if k not in out: continue
        for si, sname in enumerate(['slg', 'rec']):
            ans = out[k][si]; c = cls(ans)
            if c == 'E': stats['err'] += 1; continue
            if c == 'P': stats['panic'] += 1; print('PANIC', sname, g['goal'], ans[:80]); continue
            if g['closed']:
                stats['closed'] += 1
                if g['ref'] == 'U': stats['refU'] += 1; continue
                if g['maxsize'] > 6: stats['big'] += 1; continue
                if c == 'A': stats['ambig'] += 1; print('AMBIG-CLOSED', 'w%d' % e['world'], sname, '|', g['goal'], '| ref=', g['ref'], '|', ans[:60]); continue
                if c == g['ref']: stats['agree'] += 1
                else: stats['mismatch'] += 1; print('MISMATCH', 'w%d' % e['world'], sname, '|', g['goal'], '| ref=', g['ref'], '|', ans[:60])
            else:
                stats['ex'] += 1
                if c == 'F' and g['sols']: stats['ex_bad'] += 1; print('EX-NONE-BUT-SOL', 'w%d' % e['world'], sname, '|', g['goal'], '| sols=', g['sols'][:3])
                if c == 'T' and not g['unk']:
                    # unique with ground subst: must be the only solution
                    import re
                    m = re.search(r'substitution \[\?0 := ([^\]]*)\]', ans)
                    if m and 'for<' not in ans:
                        val = m.group(1)
                        others = [s for s in g['sols'] if s != val]
                        if others: stats['ex_bad'] += 1; print('EX-UNIQUE-BUT-OTHER', 'w%d' % e['world'], sname, '|', g['goal'], '|', ans[:70], '| other sols=', others[:3])
                        if val not in g['sols'] and len(val) < 12: print('EX-UNIQUE-NOT-IN-REF?', 'w%d' % e['world'], sname, '|', g['goal'], '|', ans[:70], g['sols'][:3])
print(stats)
