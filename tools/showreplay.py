import json,sys
for f in sys.argv[1:]:
    r=json.load(open(f))
    print(f, r['class'], 'rounds', r.get('minimisation_rounds')); print('  ',r['detail'][:500]); print('  items:'); [print('     ',i) for i in r['spec']['world']['items']]
    sp=r['spec']
    print('  goals:', sp['world']['goals']); print('  db', sp.get('db'), 'slots', sp.get('slots'))
    print('  ops', [(o['kind'],o['slot'],o['goal'],o['fault']) for o in sp.get('ops',[])], 'points', sp.get('points'), 'scheds', sp.get('scheds'), 'params', sp.get('params'))
