#!/bin/bash
# tools/try_replay_scratch.sh <patch.diff> <check id> <replay.json>...
# Applies the patch in the scratch worktree (/tmp/tp/repo), builds a copy of the simulator against it and replays
# the given spec files there (prints the replay verdict and signature). Never touches /repo.
PATCH="$(readlink -f "$1")"; CHECK="$2"; shift 2
SRC="$(cd "$(dirname "$0")/.." && pwd)"
mkdir -p /tmp/tp
if [ ! -d /tmp/tp/repo ]; then git -C /repo worktree add -f /tmp/tp/repo HEAD -q || exit 2; fi
git -C /tmp/tp/repo checkout -q --detach "$(git -C /repo rev-parse HEAD)" && git -C /tmp/tp/repo checkout -- . || exit 2
mkdir -p /tmp/tp/verif
rsync -a --delete --exclude target --exclude build.log "$SRC/sim/" /tmp/tp/verif/sim/
rsync -a --delete "$SRC/corpus/" /tmp/tp/verif/corpus/
rsync -a --delete "$SRC/findings/" /tmp/tp/verif/findings/
cp "$SRC/known_findings.json" "$SRC/check" /tmp/tp/verif/
sed -i 's#/repo/#/tmp/tp/repo/#g' /tmp/tp/verif/sim/Cargo.toml
trap 'git -C /tmp/tp/repo checkout -- . ; echo "[scratch repo restored]"' EXIT
if [ "$PATCH" != "/dev/null" ]; then git -C /tmp/tp/repo apply "$PATCH" || { echo "patch does not apply"; exit 2; }; fi
cd /tmp/tp/verif/sim && cargo build --release --offline 2>&1 | grep -E "^error" -A 8
cd /tmp/tp/verif
for f in "$@"; do
  echo "== $f"
  VERIF_ROOT=/tmp/tp/verif ./sim/target/release/chalk-sim check "$CHECK" --replay "$f" 2>/dev/null | grep -vE "^chalk-sim|^replay outcome" | cut -c1-600
done
