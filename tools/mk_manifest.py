#!/usr/bin/env python3
"""Generates /verif/MANIFEST.json from the table below (single source of truth for the interface)."""
import json, subprocess

BASELINE = "cd /repo && cargo nextest run --workspace --no-fail-fast --tool-config-file pb:/w/lib/nextest.toml --profile pb --test-threads 8 --offline || (cd /repo && cargo test --workspace --no-fail-fast --offline)"

CLAIMED = {
 "C03": ("exploration", "solver-sim", "deterministic simulation: consumer stop/resume schedules at the answer-callback seam + history checks on the callback log + reference model",
         "Fresh enumeration vs. enumerations stopped at every callback position and resumed on the same solver; duplicate/flag/prefix/aggregate checks on the callback log; soundness and (for completing enumerations) completeness against Ref.",
         "Enumerations capped at 64 callbacks; Ref over depth-2 universe; known findings F8/F10/F12 matched by signature (static tags).", "§6 C03"),
 "C04": ("exploration", "solver-sim", "deterministic simulation: both solvers as two servers of one perturbed history, pairwise compatibility of their answers",
         "SLG and recursive solver answer the same seeded history (warm, faulted+retried, permuted/superset DB); after every operation the latest uninterrupted answers for the goal are compared for compatibility; whole corpus + W-gen.",
         "Lifetimes erased; instance test by one-way matching (undecided shapes never alarm); answers of an interrupted solver slot are left to C11; known findings F8/F12/F19 matched by signature.", "§6 C04"),
 "C09": ("exploration", "solver-sim", "deterministic simulation: bounded liveness on the database step clock with process isolation and wall-clock guard",
         "One isolated (world, goal, solver configuration, operation) per run over W-wild, W-gen, coinductive worlds and the whole corpus with default and reduced limits; violation = step budget exhausted, wall-clock guard (re-run in isolation), abort, or an undocumented panic.",
         "Sampling; known non-termination findings F4/F5/F17/F21/F22 matched by signature computed from the run's spec (wall-clock guard and step budget are one class).", "§6 C09"),
 "C13": ("exploration", "solver-sim", "deterministic simulation: permutation of every database list answer (seam S1) and of the program text (items, where-clauses, fields) vs the original order",
         "Fresh answers under K presentation orders at the database seam and at the text level are compared by names with the original order's answers; limit-reached runs excluded by probe.",
         "Lifetime-free worlds; F14 (Unique vs Ambiguous under clause order), F12 (non-linear headers), F9 matched by signature; differing guidance between two ambiguous answers is reported.", "§6 C13"),
 "C14": ("exploration", "infer-sim", "deterministic simulation: seeded operation histories on InferenceTable refined against a reference unifier",
         "After every relate of a seeded history (variables in several universes, int/float kinds, snapshots) success and the canonical state of ALL variables must equal the reference unifier's (existence of a unifier, equality, most-generality).",
         "Reference unifier is the spec; no lifetimes/aliases/binders.", "§6 C14"),
 "C15": ("exploration", "infer-sim", "deterministic simulation: failing relate as injected fault in seeded histories, state-before == state-after, argument symmetry",
         "For every failing relate (inside snapshots, after partial bindings) canonical state, universe counter and variable count are unchanged; relate(a,b) and relate(b,a) agree on clones.",
         "Observation through public API (canonicalize, clones).", "§6 C15"),
 "C18": ("exploration", "solver-sim", "deterministic simulation: buggify-style equivalence — pre-filter skipped (superset at the database seam, could_match forced true by hook) vs filtered; seam check with the real unifier",
         "Answers under superset impls / forced could_match / both must equal the filtered answers; every impl the real impls_for_trait dropped from a real query must fail to unify with it under the real unifier.",
         "Hook: could_match toggle (--cfg chalk_verif). Worlds with lifetimes: answers compared modulo lifetimes (kind of answer + type-level substitution).", "§6 C18"),
 "C23": ("exploration", "solver-sim", "deterministic simulation: record through LoggingRustIrDatabase, restart from the printed text in a fresh world, replay and compare",
         "Goal sequences through one recording wrapper; at restart points the printed program is re-parsed as a new world and the prefix re-solved by fresh solvers; strict and with-stubs stages.",
         "F6b (goal names an item no callback mentioned), F14/F12 (answer depends on the order of the logged impls) matched by signature.", "§6 C23"),
 "C27": ("fault_enumeration", "fold-sim", "deterministic fault enumeration: every fault position x mode x element kind x length of the in-place fold, drop ledger + counting allocator, Miri in the thorough tier",
         "Exhaustive in the bounded space (lengths 0..=8 quick / 0..=24 thorough, all positions, Err and panic, five element kinds, Vec and Box); thorough additionally under Miri.",
         "Hook: re-export of the in-place routines (--cfg chalk_verif). A fold process killed by a signal is a violation, not a harness error.", "§6 C27"),
 "C28": ("exploration", "solver-sim", "deterministic simulation: structural monitor on every response of perturbed histories (interrupted, recovered, enumerated)",
         "Every returned solution / enumerated answer of seeded histories (incl. Suggested guidance after interruptions, answers after recovered panics) is checked structurally against its query.",
         "Structural only (scope and kind of every bound variable incl. binders opened inside the value: fn pointers, dyn); truth is C01's subject.", "§6 C28"),
 "C01": ("exploration", "solver-sim", "deterministic simulation: reference-model conformance of every response in perturbed histories (warm state, interruptions, recovered panics, permuted/superset database answers)",
         "Every answer of seeded simulated histories on fragment worlds is judged against Ref, an independent three-valued model of the program's logical meaning. The simulator contributes the contexts (warm, interrupted, after a recovered panic, permuted DB); the input quantifier is sampled by W-gen. Sampling, not proof.",
         "Trusts Ref (sim/src/reference.rs) and the bounded universe (depth 2) for goals with unknowns; known findings F8/F10 (SLG coinduction), F12 (non-linear headers) matched by signature.", "§6 C01"),
 "C02": ("exploration", "solver-sim", "deterministic simulation: per-run randomised solver limits (swarm knobs) + reference-model conformance on closed goals",
         "Closed goals of size-decreasing fragment worlds under limits drawn between the bound Ref measured and the defaults; answers must be definite and equal Ref; limit-reached runs excluded.",
         "Trusts Ref; limit-reached is decided by Ref's own measurement of the derivation (largest type, deepest stack; unbounded for goals refuted by the infinite-regress rule), not by chalk's truncation; known finding F9 matched by signature.", "§6 C02"),
 "C05": ("exploration", "solver-sim", "deterministic simulation: histories over all members of coinductive cycles on warm solvers vs greatest-fixed-point reference model and fresh solver",
         "Worlds with auto/#[coinductive] traits and recursive structs; every cycle member posed in PRNG order on warm solvers; answers must equal Ref (gfp) and a fresh solver.",
         "Trusts Ref; SLG incompleteness on multi-member cycles (F8) matched by signature, its coverage loss is reported in the evidence.", "§6 C05"),
 "C06": ("exploration", "solver-sim", "deterministic simulation: interleaved scoped/unscoped goals on one solver (+ permuted environment clauses) vs reference closure and fresh solver",
         "Goals under hypotheses interleaved on one solver with the same goals without / with weaker / with differently-scoped hypotheses; answers must equal Ref (closure computed independently) and a fresh solver.",
         "Trusts Ref; known findings F8, F9 matched by signature.", "§6 C06"),
 # id: (level, engine, technique, level text, level note, design ref)
 "C10": ("exploration", "solver-sim", "deterministic simulation: seeded operation histories on warm/shared solver state vs fresh-solver reference",
         "Seeded search over operation histories on five solver slots (SLG, recursive cache on/off, two recursive solvers sharing a cache); every answer is compared with a fresh solver. Sampling, not proof; right level because the property quantifies over unbounded histories.",
         "Trusts: SimDb delegation, strict Solution equality as oracle, corpus+W-gen as workload.", "§6 C10"),
 "C11": ("fault_enumeration", "solver-sim", "deterministic simulation: enumeration of interruption schedules at the should_continue seam + follow-up histories",
         "For each sampled (world, goal, solver) every one-shot and from-k-onwards interruption point up to a cap is executed, plus periodic/always/coin schedules, each followed by further solves on the same solver; oracle = safe approximation + later answers equal fresh.",
         "Exhaustive only over interruption points of the sampled inputs up to the cap; C01-fragment worlds only; definite guidance of an interrupted solve that the full answer does not back is judged by Ref.", "§6 C11"),
 "C12": ("fault_enumeration", "solver-sim", "deterministic simulation: crash-point enumeration (n-th database callback unwinds) + follow-up histories",
         "For each sampled (world, goal, solver) every database call up to a cap is made to unwind (optionally a second panic during the retry), then the same solver instance is asked again; oracle = no panic and answers equal fresh.",
         "Exhaustive only over crash points of the sampled inputs up to the cap; C01-fragment worlds only.", "§6 C12"),
}

NA = {
 "C07": "Pure function of (program, goal): no state, schedule, fault, history or knob in its quantifier; only input generation could drive it, which is property-based testing, not simulation.",
 "C08": "Pure function of (program, goal); the oracle would be a re-implementation of Rust's built-in trait rules driven by generated inputs only.",
 "C16": "Pure function of a value and an inference-table state; nothing is scheduled, faulted or configured (canonicalisation is only used as infer-sim's observation function).",
 "C17": "Pure functions on pairs/sequences of substitutions and solutions; no seam for a simulator to own.",
 "C19": "Pure function of the program; every pairwise overlap query uses a fresh solver, nothing is carried, scheduled or faulted.",
 "C20": "Pure function of the program (orphan rules), fresh solver per query.",
 "C21": "Pure function of the program (well-formedness), fresh solver per query.",
 "C22": "Pure text -> IR -> text function; parse_program takes a &str, there is no stream or I/O seam to fault.",
 "C24": "Pure function of the input text; no partial reads, streams or I/O to fault.",
 "C25": "Pure functions on IR terms (binder/substitution laws).",
 "C26": "Pure function on IR terms (type flags).",
 "C29": "Pure function of two types and the declared variances.",
}

def main():
    hooks = subprocess.run(["git", "-C", "/repo", "log", "--format=%h %s", "--grep=^verif-hook:"], capture_output=True, text=True).stdout.strip().splitlines()
    checks = []
    for pid, (level, engine, tech, text, note, ref) in sorted(CLAIMED.items()):
        checks.append({
            "property_id": pid,
            "quick_cmd": f"./check {pid} --tier quick",
            "thorough_cmd": f"./check {pid} --tier thorough",
            "evidence_file": f"evidence/{pid}.json",
            "replay_cmd_template": f"./check {pid} --replay {{path}}",
            "engine": engine,
            "level_claimed": {"category": level, "text": text, "design_ref": ref},
            "level_note": note,
            "technique": tech,
        })
    m = {
        "version": 1,
        "setup_cmd": "cd /verif/sim && CARGO_NET_OFFLINE=true cargo build --release --offline && cd /verif/fold && CARGO_NET_OFFLINE=true cargo build --release --offline && cd /verif && VERIF_ROOT=/verif ./sim/target/release/chalk-sim selftest",
        "hooks": {
            "guard": "--cfg chalk_verif",
            "enable": "RUSTFLAGS --cfg chalk_verif via /verif/sim/.cargo/config.toml (the simulator crate depends on /repo's crates by path)",
            "baseline_off_cmd": BASELINE,
            "source_commits": [h.split()[0] for h in hooks],
            "add_only": True,
        },
        "engines": [
            {"name": "infer-sim", "path": "sim/src/checks/infer.rs", "serves_properties": ["C14", "C15"], "kind_free_text": "operation histories on the real InferenceTable vs a reference unifier (copy-on-snapshot), failing relate as the fault"},
            {"name": "fold-sim", "path": "fold/src/main.rs", "serves_properties": ["C27"], "kind_free_text": "exhaustive fault-position enumeration for the in-place Vec/Box fold with drop ledger and counting allocator; the same binary runs under Miri"},
            {"name": "solver-sim", "path": "sim/src", "serves_properties": sorted(k for k, v in CLAIMED.items() if v[1] == "solver-sim"),
             "kind_free_text": "single-process deterministic simulator: SimDb seam (step clock, panic injection, answer permutation/superset), should_continue and answer-callback schedules, operation histories on warm/shared solver state; isolated worker processes with wall-clock guard; one PRNG stream per run derived from VERIF_SEED"},
        ],
        "checks": checks,
        "not_applicable": [{"property_id": k, "reason": v} for k, v in sorted(NA.items())],
        "notes": "Every check: exit 0 held / 1 + 'VIOLATION property=<id> replay=<path>' / 2 harness error. VERIF_SEED (default 1) decides every run. Known findings: /verif/known_findings.json (read-only at run time).",
    }
    json.dump(m, open("/verif/MANIFEST.json", "w"), indent=1)
    print("MANIFEST.json written:", len(checks), "checks,", len(NA), "n/a")

if __name__ == "__main__":
    main()
