#!/bin/bash
# tools/try_patch_scratch.sh <patch.diff> <tier> <check ids...>
# Like try_patch.sh but never touches /repo: a scratch worktree of /repo's HEAD (/tmp/tp/repo) gets the patch,
# a copy of the simulator sources is built against it (/tmp/tp/verif), checks run there, patch is reversed.
PATCH="$(readlink -f "$1")"; TIER="$2"; shift 2
SRC="$(cd "$(dirname "$0")/.." && pwd)"
mkdir -p /tmp/tp
if [ ! -d /tmp/tp/repo ]; then git -C /repo worktree add -f /tmp/tp/repo HEAD -q || exit 2; fi
git -C /tmp/tp/repo checkout -q --detach "$(git -C /repo rev-parse HEAD)" && git -C /tmp/tp/repo checkout -- . || exit 2
mkdir -p /tmp/tp/verif
rsync -a --delete --exclude target --exclude build.log "$SRC/sim/" /tmp/tp/verif/sim/
rsync -a --delete --exclude target --exclude build.log "$SRC/fold/" /tmp/tp/verif/fold/
rsync -a --delete "$SRC/corpus/" /tmp/tp/verif/corpus/
rsync -a --delete "$SRC/findings/" /tmp/tp/verif/findings/
cp "$SRC/known_findings.json" "$SRC/check" /tmp/tp/verif/
sed -i 's#/repo/#/tmp/tp/repo/#g' /tmp/tp/verif/sim/Cargo.toml /tmp/tp/verif/fold/Cargo.toml
trap 'git -C /tmp/tp/repo checkout -- . ; echo "[scratch repo restored]"' EXIT
git -C /tmp/tp/repo apply "$PATCH" || { echo "patch does not apply"; exit 2; }
cd /tmp/tp/verif
for c in "$@"; do
  out=$(./check "$c" --tier "$TIER" 2>&1); code=$?
  echo "== $c exit=$code :: $(echo "$out" | grep -E "^$c:" | cut -c1-200)"
  echo "$out" | grep -E "^VIOLATION|^HARNESS|^  class=" | cut -c1-420 | head -8
done
