#!/bin/bash
# tools/try_patch.sh <patch.diff> <tier> <check ids...> — apply a seeded change to /repo, run checks, always undo.
PATCH="$1"; TIER="$2"; shift 2
cd "$(dirname "$0")/.."
if [ -n "$(git -C /repo status --porcelain --untracked-files=no)" ]; then echo "REFUSING: /repo has uncommitted changes"; exit 2; fi
trap 'git -C /repo checkout -- . ; (cd sim && cargo build --release --offline >/dev/null 2>&1); echo "[repo restored, simulator rebuilt]"' EXIT
git -C /repo apply "$PATCH" || { echo "patch does not apply"; exit 2; }
for c in "$@"; do
  out=$(./check "$c" --tier "$TIER" 2>&1); code=$?
  echo "== $c exit=$code :: $(echo "$out" | grep -E "^$c:" | cut -c1-200)"
  echo "$out" | grep -E "^VIOLATION|^HARNESS|^  class=" | cut -c1-420 | head -8
done
