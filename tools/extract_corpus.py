import re, json, glob, sys
def balanced(s, i):
    # s[i] == '{' ; return index after matching '}'
    depth=0; j=i
    while j < len(s):
        c=s[j]
        if c=='{': depth+=1
        elif c=='}':
            depth-=1
            if depth==0: return j+1
        j+=1
    return None
out=[]
for f in sorted(glob.glob('/repo/tests/test/*.rs')):
    s=open(f).read()
    # strip line comments
    s=re.sub(r'//[^\n]*','',s)
    for m in re.finditer(r'\btest!\s*\{', s):
        start=m.end()-1
        end=balanced(s,start)
        if end is None: continue
        body=s[start+1:end-1]
        coh = 'disable_coherence' not in body
        pm=re.search(r'\bprogram\s*\{', body)
        prog=''
        pos=0
        if pm:
            e=balanced(body, pm.end()-1)
            prog=body[pm.end():e-1]
            pos=e
        goals=[]
        for gm in re.finditer(r'\bgoal\s*\{', body[pos:]):
            gs=pos+gm.end()-1
            ge=balanced(body,gs)
            if ge is None: continue
            g=body[gs+1:ge-1].strip()
            goals.append(' '.join(g.split()))
        # goals nested inside goal text? filter dup by containment is overkill
        out.append({'file':f.split('/')[-1],'program':' '.join(prog.split()),'goals':goals,'coherence':coh})
json.dump(out, open('/verif/corpus/corpus.json','w'), indent=0)
print(len(out), sum(len(x['goals']) for x in out))
