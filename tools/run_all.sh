#!/bin/bash
# tools/run_all.sh [quick|thorough] — every registered check once, summary lines only
TIER="${1:-quick}"
cd "$(dirname "$0")/.."
for c in $(python3 -c "import json; print(' '.join(x['property_id'] for x in json.load(open('MANIFEST.json'))['checks']))"); do
  start=$(date +%s)
  out=$(./check "$c" --tier "$TIER" 2>&1); code=$?
  echo "== $c exit=$code $(( $(date +%s) - start ))s :: $(echo "$out" | grep -E "^$c:" | cut -c1-220)"
  echo "$out" | grep -E "^VIOLATION|^HARNESS|^  class=" | cut -c1-300
done
