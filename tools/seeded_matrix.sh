#!/bin/bash
# tools/seeded_matrix.sh [tier [id...]] — runs, for every stored seeded change, the quick check of its own property against the
# change in the scratch worktree (never /repo) and prints one line per change: caught (exit 1) or MISSED (exit 0).
TIER="${1:-quick}"; shift
cd "$(dirname "$0")/.."
LIST="$*"; [ -z "$LIST" ] && LIST=$(ls -d seeded/C*/ | xargs -n1 basename)
for id in $LIST; do d=seeded/$id
  prop=${id:0:3}
  out=$(tools/try_patch_scratch.sh $d/patch.diff $TIER $prop 2>&1)
  line=$(echo "$out" | grep -E "^== $prop" | head -1)
  if echo "$line" | grep -q "exit=1"; then echo "caught  $id by $prop :: ${line:0:200}"; else echo "MISSED  $id by $prop :: ${line:0:200}"; fi
done
