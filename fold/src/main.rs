//! fold-sim (C27): in-place folding of Vec<T> / Box<T> is memory-safe at every failure point.
//! Exhaustive over (container, element kind, length, fault position, fault mode) in the bounded space.
//! Oracles: every element dropped exactly once on failure and never on success (ledger), allocations
//! balanced (counting allocator), the injected outcome is what the caller observes. Runs natively and,
//! unchanged, under Miri (UB, leaks, double free, uninitialised reads).
//!   fold-sim [--max-len N] [--case KIND,LEN,POS,MODE]     prints one JSON object

use chalk_integration::interner::ChalkIr;
use chalk_ir::fold::{verif_fallible_map_box, verif_fallible_map_vec, FallibleTypeFolder, TypeFoldable};
use chalk_ir::DebruijnIndex;
use std::alloc::{GlobalAlloc, Layout, System};
use std::cell::{Cell, RefCell};
use std::collections::BTreeMap;
use std::sync::atomic::{AtomicI64, Ordering};

// ------------------------------------------------------------------ instrumentation

struct Counting;
static LIVE: AtomicI64 = AtomicI64::new(0);
unsafe impl GlobalAlloc for Counting {
    unsafe fn alloc(&self, l: Layout) -> *mut u8 {
        LIVE.fetch_add(1, Ordering::Relaxed);
        System.alloc(l)
    }
    unsafe fn dealloc(&self, p: *mut u8, l: Layout) {
        LIVE.fetch_sub(1, Ordering::Relaxed);
        System.dealloc(p, l)
    }
    unsafe fn realloc(&self, p: *mut u8, l: Layout, n: usize) -> *mut u8 {
        System.realloc(p, l, n)
    }
}
#[global_allocator]
static A: Counting = Counting;

thread_local! {
    static DROPS: RefCell<BTreeMap<u32, u32>> = RefCell::new(BTreeMap::new());
    static ZDROPS: Cell<u32> = Cell::new(0);
    /// (fault position, mode 0 none / 1 Err / 2 panic)
    static PLAN: Cell<(i64, u8)> = Cell::new((-1, 0));
    static SEEN: Cell<i64> = Cell::new(0);
}

fn note_drop(id: u32) {
    DROPS.with(|d| *d.borrow_mut().entry(id).or_insert(0) += 1);
}

/// element that owns heap memory
#[derive(Debug)]
struct Elem(u32, Box<u32>);
impl Drop for Elem {
    fn drop(&mut self) {
        assert_eq!(*self.1, self.0 ^ 0x5a5a, "element {} read back corrupted", self.0);
        note_drop(self.0);
    }
}
/// same layout as Elem, different type
#[repr(transparent)]
#[derive(Debug)]
struct Same(Elem);
/// different layout
#[derive(Debug)]
struct Big(Elem, u64, u8);
/// zero-sized, with a drop ledger
#[derive(Debug)]
struct Z;
impl Drop for Z {
    fn drop(&mut self) {
        ZDROPS.with(|z| z.set(z.get() + 1));
    }
}
#[derive(Debug)]
struct Z2(Z);

/// decide the fate of the next element: Ok(()) / Err(()) / panic
fn gate() -> Result<(), ()> {
    let i = SEEN.with(|s| {
        let v = s.get();
        s.set(v + 1);
        v
    });
    let (pos, mode) = PLAN.with(|p| p.get());
    if i == pos {
        if mode == 2 {
            panic!("injected fold panic");
        }
        if mode == 1 {
            return Err(());
        }
    }
    Ok(())
}

// the public path: TypeFoldable for Vec<T> / Box<T> with T = U
impl TypeFoldable<ChalkIr> for Elem {
    fn try_fold_with<E>(self, f: &mut dyn FallibleTypeFolder<ChalkIr, Error = E>, _b: DebruijnIndex) -> Result<Self, E> {
        match gate() {
            Ok(()) => Ok(self),
            Err(()) => Err(folder_error(f)),
        }
    }
}
impl TypeFoldable<ChalkIr> for Z {
    fn try_fold_with<E>(self, f: &mut dyn FallibleTypeFolder<ChalkIr, Error = E>, _b: DebruijnIndex) -> Result<Self, E> {
        match gate() {
            Ok(()) => Ok(self),
            Err(()) => Err(folder_error(f)),
        }
    }
}
fn folder_error<E>(f: &mut dyn FallibleTypeFolder<ChalkIr, Error = E>) -> E {
    match f.try_fold_free_var_ty(chalk_ir::BoundVar::new(DebruijnIndex::INNERMOST, 0), DebruijnIndex::INNERMOST) {
        Err(e) => e,
        Ok(_) => panic!("folder did not fail"),
    }
}
struct F;
impl FallibleTypeFolder<ChalkIr> for F {
    type Error = ();
    fn as_dyn(&mut self) -> &mut dyn FallibleTypeFolder<ChalkIr, Error = ()> {
        self
    }
    fn interner(&self) -> ChalkIr {
        ChalkIr
    }
    fn try_fold_free_var_ty(&mut self, _b: chalk_ir::BoundVar, _o: DebruijnIndex) -> Result<chalk_ir::Ty<ChalkIr>, ()> {
        Err(())
    }
}

fn mk(len: u32) -> Vec<Elem> {
    (0..len).map(|i| Elem(i, Box::new(i ^ 0x5a5a))).collect()
}

const KINDS: &[&str] = &[
    "vec-public-same-type",
    "vec-hook-same-layout",
    "vec-hook-different-layout",
    "vec-hook-zst",
    "vec-public-zst",
    "box-public-same-type",
    "box-hook-same-layout",
    "box-hook-different-layout",
    "box-hook-zst",
];

type Mid = Option<Result<(usize, u32, u32), (u32, u32)>>;

/// The measured region, kept out of line so that no allocation of the harness can be moved into it by
/// the optimiser: live blocks before, the operation, its result dropped, live blocks after.
#[inline(never)]
fn measured(kind_s: &'static str, len: u32) -> (i64, i64, u8, Mid) {
    let live_before = LIVE.load(Ordering::Relaxed);
    let res = std::panic::catch_unwind(move || -> Result<(usize, u32, u32), (u32, u32)> {
        // returns Ok((out_len, drops_before_result_dropped, zdrops_before)) or Err((drops_at_failure, zdrops))
        let drops_now = || DROPS.with(|d| d.borrow().values().sum::<u32>());
        let z_now = || ZDROPS.with(|z| z.get());
        match kind_s {
            "vec-public-same-type" => match mk(len).try_fold_with(&mut F, DebruijnIndex::INNERMOST) {
                Ok(v) => {
                    let r = (v.len(), drops_now(), z_now());
                    drop(v);
                    Ok(r)
                }
                Err(()) => Err((drops_now(), z_now())),
            },
            "vec-hook-same-layout" => match verif_fallible_map_vec(mk(len), |e| gate().map(|_| Same(e))) {
                Ok(v) => {
                    let r = (v.len(), drops_now(), z_now());
                    drop(v);
                    Ok(r)
                }
                Err(()) => Err((drops_now(), z_now())),
            },
            "vec-hook-different-layout" => match verif_fallible_map_vec(mk(len), |e| gate().map(|_| Big(e, 7, 1))) {
                Ok(v) => {
                    let r = (v.len(), drops_now(), z_now());
                    drop(v);
                    Ok(r)
                }
                Err(()) => Err((drops_now(), z_now())),
            },
            "vec-hook-zst" => match verif_fallible_map_vec((0..len).map(|_| Z).collect::<Vec<Z>>(), |e| gate().map(|_| Z2(e))) {
                Ok(v) => {
                    let r = (v.len(), drops_now(), z_now());
                    drop(v);
                    Ok(r)
                }
                Err(()) => Err((drops_now(), z_now())),
            },
            "vec-public-zst" => match (0..len).map(|_| Z).collect::<Vec<Z>>().try_fold_with(&mut F, DebruijnIndex::INNERMOST) {
                Ok(v) => {
                    let r = (v.len(), drops_now(), z_now());
                    drop(v);
                    Ok(r)
                }
                Err(()) => Err((drops_now(), z_now())),
            },
            "box-public-same-type" => match Box::new(mk(1).pop().unwrap()).try_fold_with(&mut F, DebruijnIndex::INNERMOST) {
                Ok(b) => {
                    let r = (1, drops_now(), z_now());
                    drop(b);
                    Ok(r)
                }
                Err(()) => Err((drops_now(), z_now())),
            },
            "box-hook-same-layout" => match verif_fallible_map_box(Box::new(mk(1).pop().unwrap()), |e| gate().map(|_| Same(e))) {
                Ok(b) => {
                    let r = (1, drops_now(), z_now());
                    drop(b);
                    Ok(r)
                }
                Err(()) => Err((drops_now(), z_now())),
            },
            "box-hook-different-layout" => match verif_fallible_map_box(Box::new(mk(1).pop().unwrap()), |e| gate().map(|_| Big(e, 7, 1))) {
                Ok(b) => {
                    let r = (1, drops_now(), z_now());
                    drop(b);
                    Ok(r)
                }
                Err(()) => Err((drops_now(), z_now())),
            },
            "box-hook-zst" => match verif_fallible_map_box(Box::new(Z), |e| gate().map(|_| Z2(e))) {
                Ok(b) => {
                    let r = (1, drops_now(), z_now());
                    drop(b);
                    Ok(r)
                }
                Err(()) => Err((drops_now(), z_now())),
            },
            other => panic!("unknown kind {}", other),
        }
    });
    let (observed, mid): (u8, Option<Result<(usize, u32, u32), (u32, u32)>>) = match &res {
        Ok(Ok(x)) => (0u8, Some(Ok(*x))),
        Ok(Err(x)) => (1, Some(Err(*x))),
        Err(_) => (2, None),
    };
    drop(res);
    // nothing of the harness has allocated since `live_before`: the balance is the operation's own
    let live_after = LIVE.load(Ordering::Relaxed);
    (live_before, live_after, observed, mid)
}

/// run one case; returns (observed outcome 0 ok / 1 err / 2 panic, problems)
fn run_case(kind: &str, len: u32, pos: i64, mode: u8) -> (u8, Vec<String>) {
    let n_pre = if kind.starts_with("box") { 1 } else { len };
    // pre-populate the ledger so that recording a drop never allocates inside the measured region
    DROPS.with(|d| {
        let mut d = d.borrow_mut();
        d.clear();
        for i in 0..n_pre {
            d.insert(i, 0);
        }
    });
    ZDROPS.with(|z| z.set(0));
    SEEN.with(|s| s.set(0));
    PLAN.with(|p| p.set((if mode == 0 { -1 } else { pos }, mode)));
    let zst = kind.ends_with("zst");
    let boxed = kind.starts_with("box");
    let mut problems = vec![];
    // the operation; the result is dropped inside (after the mid-point observation)
    let kind_s: &'static str = KINDS.iter().find(|k| **k == kind).copied().expect("unknown kind");
    let (live_before, live_after, observed, mid) = std::hint::black_box(measured(std::hint::black_box(kind_s), std::hint::black_box(len)));
    let n = if boxed { 1 } else { len };
    let expect_fail = mode != 0 && n > 0 && (pos as u32) < n;
    let expected = if expect_fail { mode } else { 0 };
    if observed != expected {
        problems.push(format!("caller observed outcome {} but outcome {} was injected", observed, expected));
    }
    match mid {
        Some(Ok((out_len, drops_mid, z_mid))) => {
            if out_len as u32 != n {
                problems.push(format!("result has {} elements, input had {}", out_len, n));
            }
            if drops_mid != 0 || z_mid != 0 {
                problems.push(format!("{} element(s) were dropped although folding succeeded", drops_mid + z_mid));
            }
        }
        Some(Err((drops_fail, z_fail))) => {
            let d = if zst { z_fail } else { drops_fail };
            if d != n {
                problems.push(format!("after the error return {} of {} elements had been dropped", d, n));
            }
        }
        None => {}
    }
    // final ledger: every element exactly once
    if zst {
        let z = ZDROPS.with(|z| z.get());
        if z != n {
            problems.push(format!("zero-sized elements: {} drops for {} elements", z, n));
        }
    } else {
        DROPS.with(|d| {
            let d = d.borrow();
            for i in 0..n {
                match d.get(&i) {
                    Some(1) => {}
                    Some(0) | None => problems.push(format!("element {} never dropped (leak)", i)),
                    Some(k) => problems.push(format!("element {} dropped {} times", i, k)),
                }
            }
            if d.len() as u32 > n {
                problems.push("drop of an element that was never created".to_string());
            }
        });
    }
    if live_after != live_before {
        problems.push(format!("allocations not balanced: {} live blocks before, {} after", live_before, live_after));
    }
    (observed, problems)
}

fn main() {
    std::panic::set_hook(Box::new(|_| {}));
    let args: Vec<String> = std::env::args().collect();
    let val = |n: &str| args.iter().position(|a| a == n).and_then(|i| args.get(i + 1).cloned());
    let max_len: u32 = val("--max-len").and_then(|s| s.parse().ok()).unwrap_or(8);
    let mut cases: Vec<(String, u32, i64, u8)> = vec![];
    if let Some(c) = val("--case") {
        let p: Vec<&str> = c.split(',').collect();
        cases.push((p[0].to_string(), p[1].parse().unwrap(), p[2].parse().unwrap(), p[3].parse().unwrap()));
    } else {
        let only_kind = val("--kind");
        let only_len: Option<u32> = val("--len").and_then(|s| s.parse().ok());
        for kind in KINDS {
            if let Some(k) = &only_kind {
                if k != kind {
                    continue;
                }
            }
            let boxed = kind.starts_with("box");
            for len in 0..=max_len {
                if let Some(l) = only_len {
                    if l != len {
                        continue;
                    }
                }
                if boxed && len != 1 {
                    continue;
                }
                for mode in 0..=2u8 {
                    let positions: Vec<i64> = if mode == 0 { vec![0] } else { (0..len.max(1) as i64).collect() };
                    for pos in positions {
                        cases.push((kind.to_string(), len, pos, mode));
                    }
                }
            }
        }
    }
    // warm up thread-locals and the ledger map so that their own allocations do not count
    let _ = run_case("vec-public-same-type", 2, 0, 1);
    let mut bad = vec![];
    let mut by_kind: BTreeMap<String, u32> = BTreeMap::new();
    let (mut faults_err, mut faults_panic, mut nofault) = (0, 0, 0);
    for (kind, len, pos, mode) in &cases {
        let (obs, problems) = run_case(kind, *len, *pos, *mode);
        *by_kind.entry(kind.clone()).or_insert(0) += 1;
        match obs {
            1 => faults_err += 1,
            2 => faults_panic += 1,
            _ => nofault += 1,
        }
        if !problems.is_empty() {
            bad.push(format!("{{\"case\":\"{},{},{},{}\",\"problems\":{:?}}}", kind, len, pos, mode, problems));
        }
    }
    println!(
        "{{\"cases\":{},\"max_len\":{},\"err_returns_observed\":{},\"panics_observed\":{},\"successes_observed\":{},\"by_kind\":{{{}}},\"bad\":[{}]}}",
        cases.len(),
        max_len,
        faults_err,
        faults_panic,
        nofault,
        by_kind.iter().map(|(k, v)| format!("\"{}\":{}", k, v)).collect::<Vec<_>>().join(","),
        bad.join(",")
    );
}
