//! chalk-sim — deterministic simulation with fault injection for rust-lang/chalk.
//!   chalk-sim check <ID> [--tier quick|thorough] [--seed N] [--jobs N] [--runs N] [--replay FILE]
//!   chalk-sim worker            (internal: one isolated worker process)
//!   chalk-sim selftest          (determinism proof on a sample of runs)
//!   chalk-sim triage-corpus     (tag corpus goals that hang / abort / panic on the unchanged tree)

pub mod checks;
pub mod cmp;
pub mod exec;
pub mod refcheck;
pub mod reference;
pub mod rng;
pub mod run;
pub mod simdb;
pub mod ssim;
pub mod wgen;
pub mod world;

use run::*;
use serde_json::{json, Value};
use std::collections::BTreeMap;
use std::io::{BufRead, Write};
use std::time::{Duration, Instant};

fn arg_val(args: &[String], name: &str) -> Option<String> {
    args.iter().position(|a| a == name).and_then(|i| args.get(i + 1).cloned())
}

fn main() {
    let args: Vec<String> = std::env::args().collect();
    let cmd = args.get(1).map(|s| s.as_str()).unwrap_or("");
    let code = match cmd {
        "worker" => {
            worker_main();
            0
        }
        "check" => cmd_check(&args),
        "selftest" => cmd_selftest(&args),
        "solve" => {
            // chalk-sim solve <spec-or-world.json>: every goal x solver kind, fresh, isolated, 10 s guard
            let text = std::fs::read_to_string(args.get(2).expect("file")).expect("read");
            let v: Value = serde_json::from_str(&text).expect("json");
            let world = if v.get("world").is_some() { v["world"].clone() } else if v.get("spec").is_some() { v["spec"]["world"].clone() } else { v.clone() };
            let ng = world["goals"].as_array().map(|a| a.len()).unwrap_or(0);
            let mut reqs = vec![];
            for gi in 0..ng {
                for kind in ["slg", "rec", "rec-nocache"] {
                    reqs.push(json!({"check": "TRIAGE", "idx": reqs.len(), "spec": {"world": world, "goal": gi, "kind": kind}}));
                }
            }
            let res = run_requests(reqs, default_jobs(), Duration::from_secs(10));
            for (i, r) in res.iter().enumerate() {
                let (gi, k) = (i / 3, ["slg", "rec", "rec-nocache"][i % 3]);
                println!("goal {} `{}` {:12} -> {} {}", gi, world["goals"][gi].as_str().unwrap_or(""), k, r.outcome, r.sample.as_ref().map(|s| s.to_string()).unwrap_or_default());
            }
            0
        }
        "trace" => {
            // chalk-sim trace <replay.json>: execute the replay's spec in this process with chalk's own tracing
            // output (filter from CHALK_DEBUG, e.g. CHALK_DEBUG=chalk_recursive=debug) on stdout; debugging aid only
            let text = std::fs::read_to_string(args.get(2).expect("file")).expect("read");
            let v: Value = serde_json::from_str(&text).expect("json");
            let req = json!({"check": v["property"], "idx": 0, "spec": v["spec"]});
            let t = std::thread::Builder::new().stack_size(1usize << 30).spawn(move || chalk_solve::logging::with_tracing_logs(|| handle_request(&req))).expect("spawn");
            let r = t.join().expect("join");
            println!("outcome {} violations {:?}", r.outcome, r.violations.iter().map(|v| (&v.class, &v.detail)).collect::<Vec<_>>());
            0
        }
        "gen" => {
            // print the explicit spec of one run without executing it
            let id = args.get(2).cloned().unwrap_or_default();
            let tier = arg_val(&args, "--tier").unwrap_or_else(|| "quick".into());
            let base = arg_val(&args, "--seed").and_then(|s| s.parse().ok()).unwrap_or_else(env_seed);
            let idx: u64 = arg_val(&args, "--idx").and_then(|s| s.parse().ok()).unwrap_or(0);
            let seed = rng::run_seed(base, &id, idx);
            println!("{}", serde_json::to_string_pretty(&checks::gen(&id, &tier, seed, idx, base)).unwrap());
            0
        }
        "triage-corpus" => cmd_triage(&args),
        _ => {
            eprintln!("usage: chalk-sim check <ID> [--tier quick|thorough] [--seed N] [--jobs N] [--runs N] [--replay FILE] | selftest | triage-corpus");
            2
        }
    };
    std::process::exit(code);
}

// ------------------------------------------------------------------ worker

fn merge_pin(spec: &Value, pin: &Option<Value>) -> Value {
    let mut s = spec.clone();
    if let (Some(obj), Some(Value::Object(p))) = (s.as_object_mut(), pin) {
        for (k, v) in p {
            obj.insert(k.clone(), v.clone());
        }
    }
    s
}

fn handle_request(req: &Value) -> RunResult {
    let check = req["check"].as_str().unwrap_or("").to_string();
    let idx = req["idx"].as_u64().unwrap_or(0);
    let (spec, seed) = if let Some(s) = req.get("spec") {
        (s.clone(), req["seed"].as_u64().unwrap_or(0))
    } else {
        let tier = req["tier"].as_str().unwrap_or("quick");
        let base = req["base"].as_u64().unwrap_or(1);
        let seed = rng::run_seed(base, &check, idx);
        (checks::gen(&check, tier, seed, idx, base), seed)
    };
    let mut r = RunResult::new(idx, seed);
    let _ = exec::take_run_probes();
    let res = std::panic::catch_unwind(std::panic::AssertUnwindSafe(|| checks::exec(&check, &spec, &mut r)));
    if let Err(e) = res {
        r.outcome = format!("harness-panic: {}", exec::panic_msg(&e));
    }
    if check != "TRIAGE" && !checks::NO_SOLVER_PROBES.contains(&check.as_str()) {
        let probes = exec::take_run_probes();
        for name in exec::PROBES {
            r.bump(&format!("probe.{}", name), probes.get(name).cloned().unwrap_or(0));
        }
    }
    if !r.violations.is_empty() || req.get("want_spec").and_then(|v| v.as_bool()).unwrap_or(false) {
        r.spec = Some(merge_pin(&spec, &r.pin));
    }
    r
}

fn worker_main() {
    std::panic::set_hook(Box::new(|_| {}));
    let t = std::thread::Builder::new()
        .stack_size(1usize << 30)
        .spawn(|| {
            let stdin = std::io::stdin();
            let stdout = std::io::stdout();
            for line in stdin.lock().lines() {
                let line = match line {
                    Ok(l) => l,
                    Err(_) => break,
                };
                if line.trim().is_empty() {
                    continue;
                }
                let req: Value = match serde_json::from_str(&line) {
                    Ok(v) => v,
                    Err(e) => {
                        let mut r = RunResult::new(0, 0);
                        r.outcome = format!("harness-panic: bad request: {}", e);
                        let mut o = stdout.lock();
                        let _ = writeln!(o, "{}", serde_json::to_string(&r).unwrap());
                        let _ = o.flush();
                        continue;
                    }
                };
                let r = handle_request(&req);
                let mut o = stdout.lock();
                let _ = writeln!(o, "{}", serde_json::to_string(&r).unwrap());
                let _ = o.flush();
            }
        })
        .expect("spawn worker thread");
    let _ = t.join();
}

// ------------------------------------------------------------------ check driver

fn env_seed() -> u64 {
    std::env::var("VERIF_SEED").ok().and_then(|s| s.trim().parse::<u64>().ok()).unwrap_or(1)
}

fn default_jobs() -> usize {
    std::thread::available_parallelism().map(|n| n.get()).unwrap_or(8)
}

fn replay_dir() -> String {
    let d = format!("{}/replays", world::verif_root());
    let _ = std::fs::create_dir_all(&d);
    d
}

fn has_class(r: &RunResult, class: &str) -> bool {
    r.violations.iter().any(|v| v.class == class)
}

/// a violation of the class that no recorded finding accounts for (the one a report is about: a run may also contain
/// violations that ARE accounted for, and the minimiser must not drift onto those)
fn has_unaccounted(r: &RunResult, check: &str, class: &str, findings: &run::Findings) -> bool {
    r.violations.iter().any(|v| v.class == class && findings.open_match(check, &v.sig).is_none())
}

/// Greedy delta-debugging on the explicit spec while the same violation class persists.
fn minimise(check: &str, spec: Value, class: &str, jobs: usize, timeout: Duration, findings: &run::Findings) -> (Value, u64) {
    let t0 = Instant::now();
    let mut cur = spec;
    let mut rounds = 0u64;
    loop {
        if t0.elapsed() > Duration::from_secs(if class == "did-not-terminate" { 60 } else { 180 }) || rounds > 400 {
            break;
        }
        let cands = checks::shrink_candidates(check, &cur);
        if cands.is_empty() {
            break;
        }
        let reqs: Vec<Value> = cands.iter().map(|c| json!({"check": check, "spec": c, "idx": 0})).collect();
        let res = run_requests(reqs, jobs, timeout);
        let mut next = None;
        for (i, r) in res.iter().enumerate() {
            if class == "did-not-terminate" {
                if r.outcome == "timeout" || r.outcome.starts_with("abort") {
                    next = Some(cands[i].clone());
                    break;
                }
            } else if r.outcome == "ok" && has_unaccounted(r, check, class, findings) {
                next = Some(r.spec.clone().unwrap_or_else(|| cands[i].clone()));
                break;
            }
        }
        match next {
            Some(n) => {
                cur = n;
                rounds += 1;
            }
            None => break,
        }
    }
    (cur, rounds)
}

fn cmd_check(args: &[String]) -> i32 {
    let id = match args.get(2) {
        Some(s) if checks::ALL.contains(&s.as_str()) => s.clone(),
        _ => {
            eprintln!("HARNESS-ERROR: unknown check id; known: {:?}", checks::ALL);
            return 2;
        }
    };
    let tier = arg_val(args, "--tier").or_else(|| std::env::var("VERIF_TIER").ok()).unwrap_or_else(|| "quick".into());
    let tier = if tier == "thorough" { "thorough".to_string() } else { "quick".to_string() };
    let base = arg_val(args, "--seed").and_then(|s| s.parse().ok()).unwrap_or_else(env_seed);
    let jobs = arg_val(args, "--jobs").and_then(|s| s.parse().ok()).unwrap_or_else(default_jobs);
    let timeout = Duration::from_secs(checks::timeout_s(&id, &tier));
    println!("chalk-sim check {} tier={} VERIF_SEED={} jobs={}", id, tier, base, jobs);

    if let Some(path) = arg_val(args, "--replay") {
        return cmd_replay(&id, &path, timeout);
    }

    // replays of earlier runs of this check are stale by definition
    if let Ok(rd) = std::fs::read_dir(replay_dir()) {
        for e in rd.flatten() {
            if e.file_name().to_string_lossy().starts_with(&format!("{}-", id)) {
                let _ = std::fs::remove_file(e.path());
            }
        }
    }
    if let Some(only) = arg_val(args, "--only").and_then(|s| s.parse::<u64>().ok()) {
        let r = run_requests(vec![json!({"check": id, "tier": tier, "base": base, "idx": only, "want_spec": true})], 1, timeout * 2).remove(0);
        println!("{}", serde_json::to_string_pretty(&r).unwrap());
        return if r.violations.is_empty() { 0 } else { 1 };
    }
    let t0 = Instant::now();
    let meta = checks::meta(&id);
    let n = arg_val(args, "--runs").and_then(|s| s.parse().ok()).unwrap_or_else(|| checks::n_runs(&id, &tier));
    // runs are executed in chunks so that memory stays bounded in the thorough tiers; only results that
    // need a second look (violations, timeouts, aborts, harness errors) are kept, the rest is aggregated
    let mut agg = Agg::default();
    let mut results: Vec<RunResult> = vec![];
    let chunk = 50_000u64;
    let mut start = 0u64;
    while start < n {
        let end = (start + chunk).min(n);
        let reqs: Vec<Value> = (start..end).map(|i| json!({"check": id, "tier": tier, "base": base, "idx": i})).collect();
        for r in run_requests(reqs, jobs, timeout) {
            if r.outcome == "ok" && r.violations.is_empty() || r.outcome == "invalid-world" {
                agg.add(&r);
            } else {
                results.push(r);
            }
        }
        start = end;
    }

    // a timeout / abort is re-run once in isolation (nothing else running) before it is believed
    let mut retried = 0;
    for r in results.iter_mut() {
        if r.outcome == "timeout" || r.outcome.starts_with("abort") {
            println!("EXCLUDED-RUN {} run {}: {}", id, r.idx, r.outcome);
            if retried >= 8 || !checks::timeouts_are_violations(&id) {
                continue;
            }
            retried += 1;
            let req = json!({"check": id, "tier": tier, "base": base, "idx": r.idx});
            let again = run_requests(vec![req], 1, timeout * 2).remove(0);
            if again.outcome == "ok" || again.outcome == "invalid-world" {
                *r = again;
            } else {
                r.outcome = again.outcome;
            }
        }
    }

    let findings = load_findings();
    // a recorded finding carries a minimised replay that must still reproduce; if it does not, say so
    for f in findings.findings.iter().filter(|f| f.status == "open" && f.property.split(',').next().map(|p| p.trim() == id).unwrap_or(false) && !f.replay.is_empty()) {
        let path = format!("{}/{}", world::verif_root(), f.replay);
        if let Ok(text) = std::fs::read_to_string(&path) {
            if let Ok(file) = serde_json::from_str::<Value>(&text) {
                let spec = file["spec"].clone();
                let class = file["class"].as_str().unwrap_or("").to_string();
                let rr = run_requests(vec![json!({"check": id, "spec": spec, "idx": 0})], 1, timeout * 2).remove(0);
                // a hang shows either as the wall-clock guard or as the step budget, whichever is hit first on this machine
                let hung = (class == "did-not-terminate" || class == "step-budget-exhausted") && (rr.outcome == "timeout" || rr.outcome.starts_with("abort"));
                let hang = |c: &str| c == "did-not-terminate" || c == "step-budget-exhausted";
                if !hung && !rr.violations.iter().any(|v| v.class == class || (hang(&class) && hang(&v.class))) {
                    println!("STALE-FINDING: property={} {} no longer reproduces from {} (the entry can be retired)", id, f.id, f.replay);
                }
            }
        }
    }
    let mut harness_errors = vec![];
    let mut known: BTreeMap<String, u64> = BTreeMap::new();
    let mut known_sigs: BTreeMap<String, (u64, u64)> = BTreeMap::new();
    let mut fresh_violations: Vec<(u64, u64, Violation, Value)> = vec![];
    for r in &results {
        agg.add(r);
        if r.outcome.starts_with("harness-panic") {
            harness_errors.push(format!("run {}: {}", r.idx, r.outcome));
        }
        if (r.outcome == "timeout" || r.outcome.starts_with("abort")) && checks::timeouts_are_violations(&id) {
            let seed = rng::run_seed(base, &id, r.idx);
            let spec = checks::gen(&id, &tier, seed, r.idx, base);
            let sig = checks::timeout_sig(&id, &spec);
            let v = Violation { class: "did-not-terminate".into(), detail: format!("run {} ended with {} (wall-clock guard / process abort; re-run in isolation confirmed)", r.idx, r.outcome), sig: sig.clone() };
            if let Some(f) = findings.open_match(&id, &sig) {
                *known.entry(format!("{} {}", f.id, f.what)).or_insert(0) += 1;
            } else {
                fresh_violations.push((r.idx, seed, v, spec));
            }
        }
        for v in &r.violations {
            if let Some(f) = findings.open_match(&id, &v.sig) {
                *known.entry(format!("{} {}", f.id, f.what)).or_insert(0) += 1;
                let e = known_sigs.entry(format!("{} <- {} [{}]", f.id, v.sig.clone().unwrap_or_default(), v.class)).or_insert((0, r.idx));
                e.0 += 1;
            } else {
                fresh_violations.push((r.idx, r.seed, v.clone(), r.spec.clone().unwrap_or(Value::Null)));
            }
        }
    }
    if std::env::var("VERIF_TRIAGE").is_ok() {
        let mut hist: BTreeMap<String, (u64, u64)> = BTreeMap::new();
        for (idx, _, v, _) in &fresh_violations {
            let e = hist.entry(format!("{} [{}]", v.sig.clone().unwrap_or_default(), v.class)).or_insert((0, *idx));
            e.0 += 1;
        }
        for (k, (n, first)) in &hist {
            println!("TRIAGE {:6} x {}  (first run {})", n, k, first);
        }
        for (k, (n, first)) in &known_sigs {
            println!("TRIAGE-KNOWN {:6} x {}  (first run {})", n, k, first);
        }
    }
    for (k, n) in &known {
        println!("KNOWN-FINDING: property={} {} ({} runs matched)", id, k, n);
    }
    if !harness_errors.is_empty() {
        for e in harness_errors.iter().take(5) {
            eprintln!("HARNESS-ERROR: {}", e);
        }
        return 2;
    }

    // report: one replay per violation class (lowest run index), minimised and verified
    let mut by_class: BTreeMap<String, (u64, u64, Violation, Value)> = BTreeMap::new();
    for fv in &fresh_violations {
        by_class.entry(format!("{}|{}", fv.2.class, fv.2.sig.clone().unwrap_or_default())).or_insert_with(|| fv.clone());
    }
    let mut reported = 0;
    for (_key, (idx, seed, v, spec)) in by_class.iter().take(6) {
        let class = &v.class;
        let (min_spec, rounds) = if spec.is_null() || spec.get("spec").is_none() && spec.get("check").is_some() && spec.get("world").is_none() {
            (spec.clone(), 0)
        } else {
            minimise(&id, spec.clone(), class, jobs, timeout, &findings)
        };
        // verify that the minimised spec reproduces in a fresh process
        let verify = run_requests(vec![json!({"check": id, "spec": min_spec, "idx": idx})], 1, timeout).remove(0);
        let hung = class == "did-not-terminate" && (verify.outcome == "timeout" || verify.outcome.starts_with("abort"));
        let (final_spec, detail, reproduced) = if hung {
            (min_spec.clone(), format!("{} ({})", v.detail, verify.outcome), true)
        } else if has_class(&verify, class) {
            let d = verify
                .violations
                .iter()
                .find(|x| &x.class == class && findings.open_match(&id, &x.sig).is_none())
                .or_else(|| verify.violations.iter().find(|x| &x.class == class))
                .map(|x| x.detail.clone())
                .unwrap_or_default();
            (verify.spec.clone().unwrap_or(min_spec), d, true)
        } else {
            (spec.clone(), v.detail.clone(), class == "did-not-terminate")
        };
        let path = format!("{}/{}-{}-{}.json", replay_dir(), id, base, idx);
        let file = json!({
            "property": id, "verif_seed": base, "run_index": idx, "run_seed": seed,
            "class": class, "detail": detail, "minimisation_rounds": rounds, "reproduced_in_fresh_process": reproduced,
            "spec": final_spec,
        });
        std::fs::write(&path, serde_json::to_string_pretty(&file).unwrap()).expect("write replay");
        println!("VIOLATION property={} replay={}", id, path);
        println!("  class={} run={} seed={} :: {}", class, idx, seed, detail.chars().take(600).collect::<String>());
        reported += 1;
    }
    let wall = elapsed_s(t0);
    write_evidence(&meta, &tier, base, &agg, wall, fresh_violations.len(), &known, json!({"exhaustive": id == "C27" && agg.outcomes.get("ok").cloned().unwrap_or(0) == agg.runs, "runs_requested": n, "violation_classes": by_class.keys().collect::<Vec<_>>(), "isolated_retries": retried}));
    println!(
        "{}: {} runs, {} distinct non-trivial shapes, {} db calls simulated, outcomes {:?}, {} violation(s) ({} class(es) reported), {:.1}s",
        id,
        agg.runs,
        agg.shapes_nontrivial.len(),
        agg.stats.get("sim.db_calls").cloned().unwrap_or(0),
        agg.outcomes,
        fresh_violations.len(),
        reported,
        wall
    );
    if fresh_violations.is_empty() {
        0
    } else {
        1
    }
}

fn cmd_replay(id: &str, path: &str, timeout: Duration) -> i32 {
    let text = match std::fs::read_to_string(path) {
        Ok(t) => t,
        Err(e) => {
            eprintln!("HARNESS-ERROR: cannot read {}: {}", path, e);
            return 2;
        }
    };
    let file: Value = match serde_json::from_str(&text) {
        Ok(v) => v,
        Err(e) => {
            eprintln!("HARNESS-ERROR: cannot parse {}: {}", path, e);
            return 2;
        }
    };
    let class = file["class"].as_str().unwrap_or("").to_string();
    let spec = file["spec"].clone();
    let req = if spec.get("world").is_some() || spec.get("kind").is_some() || spec.get("ops").is_some() { json!({"check": id, "spec": spec, "idx": file["run_index"]}) } else { spec.clone() };
    let r = run_requests(vec![req], 1, timeout * 2).remove(0);
    println!("replay outcome: {}", r.outcome);
    let timed_out = r.outcome == "timeout" || r.outcome.starts_with("abort");
    let hang = |c: &str| c == "did-not-terminate" || c == "step-budget-exhausted";
    let hit = r.violations.iter().find(|v| class.is_empty() || v.class == class || (hang(&class) && hang(&v.class)));
    if let Some(v) = hit {
        println!("VIOLATION property={} replay={}", id, path);
        println!("  class={} :: {}", v.class, v.detail);
        let findings = load_findings();
        match findings.open_match(id, &v.sig) {
            Some(f) => println!("  signature={} (matches recorded finding {})", v.sig.clone().unwrap_or_default(), f.id),
            None => println!("  signature={} (no recorded finding)", v.sig.clone().unwrap_or_default()),
        }
        1
    } else if timed_out && (class == "did-not-terminate" || class == "step-budget-exhausted") {
        // a hang shows either as the wall-clock guard or as the step budget, whichever is hit first on this machine
        println!("VIOLATION property={} replay={}", id, path);
        println!("  class=did-not-terminate :: {}", r.outcome);
        {
            let sig = checks::timeout_sig(id, &file["spec"]);
            match load_findings().open_match(id, &sig) {
                Some(f) => println!("  signature={} (matches recorded finding {})", sig.clone().unwrap_or_default(), f.id),
                None => println!("  signature={} (no recorded finding)", sig.clone().unwrap_or_default()),
            }
        }
        1
    } else {
        println!("not reproduced: no violation of class `{}` (violations seen: {:?})", class, r.violations.iter().map(|v| &v.class).collect::<Vec<_>>());
        0
    }
}

// ------------------------------------------------------------------ selftest (determinism)

fn cmd_selftest(args: &[String]) -> i32 {
    let per_arg: Option<u64> = arg_val(args, "--runs").and_then(|s| s.parse().ok());
    let base = env_seed();
    let mut bad = 0;
    for id in checks::ALL {
        // sample sizes: cheap engines get more runs; C09 fewer (each hang costs the wall-clock guard twice)
        let per = per_arg.unwrap_or(match *id {
            "C14" | "C15" => 4000,
            "C09" => 40,
            "C27" => checks::n_runs(id, "quick"),
            _ => 120,
        });
        let reqs = |n: u64| -> Vec<Value> { (0..n).map(|i| json!({"check": id, "tier": "quick", "base": base, "idx": i})).collect() };
        let a = run_requests(reqs(per), default_jobs(), Duration::from_secs(120));
        let b = run_requests(reqs(per), 3, Duration::from_secs(120));
        let mut diff = 0;
        for (x, y) in a.iter().zip(b.iter()) {
            if x.log != y.log || x.shape != y.shape || x.violations != y.violations || x.stats != y.stats {
                diff += 1;
                if diff <= 3 {
                    eprintln!("NONDETERMINISM {} run {}: log {:x}/{:x} shape {:x}/{:x} outcome {}/{}", id, x.idx, x.log, y.log, x.shape, y.shape, x.outcome, y.outcome);
                }
            }
        }
        println!("selftest {}: {} runs x 2 executions (worker counts {} and 3): {} divergent", id, per, default_jobs(), diff);
        bad += diff;
    }
    if bad == 0 {
        0
    } else {
        2
    }
}

// ------------------------------------------------------------------ corpus triage

fn cmd_triage(_args: &[String]) -> i32 {
    // one request per (entry, goal, solver kind); outcome recorded in corpus/tags.json
    let corpus = world::Corpus::load();
    let mut reqs = vec![];
    let mut keys = vec![];
    for (ei, e) in corpus.entries.iter().enumerate() {
        for gi in 0..e.goals.len() {
            for kind in ["slg", "rec", "rec-nocache"] {
                reqs.push(json!({"check": "TRIAGE", "idx": reqs.len(), "spec": {"entry": ei, "goal": gi, "kind": kind}}));
                keys.push(format!("{}:{}:{}", ei, gi, kind));
            }
        }
    }
    let res = run_requests(reqs, default_jobs(), Duration::from_secs(20));
    let mut bad = BTreeMap::new();
    for (k, r) in keys.iter().zip(res.iter()) {
        let tag = if r.outcome == "timeout" {
            Some("hang".to_string())
        } else if r.outcome.starts_with("abort") {
            Some("abort".to_string())
        } else {
            r.violations.first().map(|v| v.class.clone())
        };
        if let Some(t) = tag {
            bad.insert(k.clone(), t);
        }
    }
    let path = format!("{}/corpus/tags.json", world::verif_root());
    std::fs::write(&path, serde_json::to_string_pretty(&json!({ "bad": bad })).unwrap()).unwrap();
    println!("triage: {} (entry,goal,solver) triples, {} tagged -> {}", keys.len(), bad.len(), path);
    0
}
