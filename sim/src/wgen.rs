//! W-gen: the fragment AST (structs, traits, impls, goals of C01), its renderer to chalk syntax,
//! a parser for exactly that fragment (so any world text — generated, harvested or hand-written —
//! that parses is "in the fragment" and can be judged by `Ref`), and the seeded generator.

use crate::rng::Rng;
use crate::world::World;
use std::collections::BTreeMap;

#[derive(Clone, Debug, PartialEq, Eq, PartialOrd, Ord, Hash)]
pub enum Ty {
    Adt(String, Vec<Ty>),
    /// type parameter / quantified variable, by name
    Var(String),
    /// skolem introduced by `forall` during evaluation
    Sk(u32),
}

impl Ty {
    pub fn size(&self) -> usize {
        match self {
            Ty::Adt(_, a) => 1 + a.iter().map(|x| x.size()).sum::<usize>(),
            _ => 1,
        }
    }
    pub fn show(&self) -> String {
        match self {
            Ty::Adt(n, a) if a.is_empty() => n.clone(),
            Ty::Adt(n, a) => format!("{}<{}>", n, a.iter().map(|x| x.show()).collect::<Vec<_>>().join(", ")),
            Ty::Var(v) => v.clone(),
            Ty::Sk(i) => format!("!{}", i),
        }
    }
    pub fn subst(&self, m: &BTreeMap<String, Ty>) -> Ty {
        match self {
            Ty::Var(v) => m.get(v).cloned().unwrap_or_else(|| self.clone()),
            Ty::Adt(n, a) => Ty::Adt(n.clone(), a.iter().map(|x| x.subst(m)).collect()),
            Ty::Sk(_) => self.clone(),
        }
    }
    pub fn has_var(&self) -> bool {
        match self {
            Ty::Var(_) => true,
            Ty::Adt(_, a) => a.iter().any(|x| x.has_var()),
            Ty::Sk(_) => false,
        }
    }
    pub fn vars(&self, out: &mut Vec<String>) {
        match self {
            Ty::Var(v) => {
                if !out.contains(v) {
                    out.push(v.clone())
                }
            }
            Ty::Adt(_, a) => a.iter().for_each(|x| x.vars(out)),
            Ty::Sk(_) => {}
        }
    }
    pub fn is_strict_subterm_of(&self, other: &Ty) -> bool {
        match other {
            Ty::Adt(_, a) => a.iter().any(|x| x == self || self.is_strict_subterm_of(x)),
            _ => false,
        }
    }
}

/// one-way matching: bind pattern variables so that pat == t
pub fn match_ty(pat: &Ty, t: &Ty, m: &mut BTreeMap<String, Ty>) -> bool {
    match pat {
        Ty::Var(v) => {
            if let Some(prev) = m.get(v) {
                prev == t
            } else {
                m.insert(v.clone(), t.clone());
                true
            }
        }
        Ty::Adt(n, a) => match t {
            Ty::Adt(n2, a2) if n == n2 && a.len() == a2.len() => a.iter().zip(a2.iter()).all(|(p, x)| match_ty(p, x, m)),
            _ => false,
        },
        Ty::Sk(_) => pat == t,
    }
}

#[derive(Clone, Debug, PartialEq, Eq, PartialOrd, Ord, Hash)]
pub struct Pred {
    pub ty: Ty,
    pub tr: String,
    pub args: Vec<Ty>,
}
impl Pred {
    pub fn show(&self) -> String {
        if self.args.is_empty() {
            format!("{}: {}", self.ty.show(), self.tr)
        } else {
            format!("{}: {}<{}>", self.ty.show(), self.tr, self.args.iter().map(|a| a.show()).collect::<Vec<_>>().join(", "))
        }
    }
    pub fn subst(&self, m: &BTreeMap<String, Ty>) -> Pred {
        Pred { ty: self.ty.subst(m), tr: self.tr.clone(), args: self.args.iter().map(|a| a.subst(m)).collect() }
    }
    pub fn has_var(&self) -> bool {
        self.ty.has_var() || self.args.iter().any(|a| a.has_var())
    }
}

#[derive(Clone, Debug, PartialEq)]
pub struct AdtDecl {
    pub name: String,
    pub params: Vec<String>,
    pub fields: Vec<Ty>,
}
#[derive(Clone, Copy, Debug, PartialEq, Eq)]
pub enum TraitKind {
    Ind,
    Co,
    Auto,
}
#[derive(Clone, Debug, PartialEq)]
pub struct TraitDecl {
    pub name: String,
    pub params: Vec<String>,
    pub kind: TraitKind,
    /// where-clauses on `Self` and on the trait's own parameters
    pub wcs: Vec<Pred>,
}
#[derive(Clone, Debug, PartialEq)]
pub struct ImplDecl {
    pub params: Vec<String>,
    pub tr: String,
    pub args: Vec<Ty>,
    pub self_ty: Ty,
    pub wcs: Vec<Pred>,
    pub positive: bool,
}
#[derive(Clone, Debug, PartialEq)]
pub enum Item {
    Adt(AdtDecl),
    Trait(TraitDecl),
    Impl(ImplDecl),
}

#[derive(Clone, Debug, Default, PartialEq)]
pub struct Prog {
    pub items: Vec<Item>,
}
impl Prog {
    pub fn adts(&self) -> impl Iterator<Item = &AdtDecl> {
        self.items.iter().filter_map(|i| if let Item::Adt(a) = i { Some(a) } else { None })
    }
    pub fn traits(&self) -> impl Iterator<Item = &TraitDecl> {
        self.items.iter().filter_map(|i| if let Item::Trait(a) = i { Some(a) } else { None })
    }
    pub fn impls(&self) -> impl Iterator<Item = &ImplDecl> {
        self.items.iter().filter_map(|i| if let Item::Impl(a) = i { Some(a) } else { None })
    }
    pub fn adt(&self, n: &str) -> Option<&AdtDecl> {
        self.adts().find(|a| a.name == n)
    }
    pub fn tr(&self, n: &str) -> Option<&TraitDecl> {
        self.traits().find(|a| a.name == n)
    }
}

#[derive(Clone, Debug, PartialEq)]
pub enum Goal {
    Pred(Pred),
    Eq(Ty, Ty),
    And(Vec<Goal>),
    Forall(Vec<String>, Box<Goal>),
    Exists(Vec<String>, Box<Goal>),
    Not(Box<Goal>),
    If(Vec<Pred>, Box<Goal>),
}

impl Goal {
    pub fn show(&self) -> String {
        match self {
            Goal::Pred(p) => p.show(),
            Goal::Eq(a, b) => format!("{} = {}", a.show(), b.show()),
            Goal::And(v) => v.iter().map(|g| if matches!(g, Goal::And(_)) { format!("({})", g.show()) } else { g.show() }).collect::<Vec<_>>().join(", "),
            Goal::Forall(vs, g) => format!("forall<{}> {{ {} }}", vs.join(", "), g.show()),
            Goal::Exists(vs, g) => format!("exists<{}> {{ {} }}", vs.join(", "), g.show()),
            Goal::Not(g) => format!("not {{ {} }}", g.show()),
            Goal::If(hs, g) => format!("if ({}) {{ {} }}", hs.iter().map(|h| h.show()).collect::<Vec<_>>().join("; "), g.show()),
        }
    }
    pub fn has_exists(&self) -> bool {
        match self {
            Goal::Exists(..) => true,
            Goal::And(v) => v.iter().any(|g| g.has_exists()),
            Goal::Forall(_, g) | Goal::Not(g) | Goal::If(_, g) => g.has_exists(),
            _ => false,
        }
    }
    pub fn preds(&self, out: &mut Vec<Pred>) {
        match self {
            Goal::Pred(p) => out.push(p.clone()),
            Goal::And(v) => v.iter().for_each(|g| g.preds(out)),
            Goal::Forall(_, g) | Goal::Exists(_, g) | Goal::Not(g) => g.preds(out),
            Goal::If(hs, g) => {
                out.extend(hs.iter().cloned());
                g.preds(out)
            }
            Goal::Eq(..) => {}
        }
    }
}

// ------------------------------------------------------------------ rendering

pub fn render_item(i: &Item) -> String {
    let wc = |w: &Vec<Pred>| if w.is_empty() { String::new() } else { format!("where {} ", w.iter().map(|p| p.show()).collect::<Vec<_>>().join(", ")) };
    let gen = |p: &Vec<String>| if p.is_empty() { String::new() } else { format!("<{}>", p.join(", ")) };
    match i {
        Item::Adt(a) => format!(
            "struct {}{} {{ {} }}",
            a.name,
            gen(&a.params),
            a.fields.iter().enumerate().map(|(i, f)| format!("f{}: {}", i, f.show())).collect::<Vec<_>>().join(", ")
        ),
        Item::Trait(t) => format!(
            "{}trait {}{} {}{{ }}",
            match t.kind {
                TraitKind::Ind => "",
                TraitKind::Co => "#[coinductive] ",
                TraitKind::Auto => "#[auto] ",
            },
            t.name,
            gen(&t.params),
            wc(&t.wcs)
        ),
        Item::Impl(im) => format!(
            "impl{} {}{}{} for {} {}{{ }}",
            gen(&im.params),
            if im.positive { "" } else { "!" },
            im.tr,
            if im.args.is_empty() { String::new() } else { format!("<{}>", im.args.iter().map(|a| a.show()).collect::<Vec<_>>().join(", ")) },
            im.self_ty.show(),
            wc(&im.wcs)
        ),
    }
}

// ------------------------------------------------------------------ parser (fragment only)

#[derive(Clone, Debug, PartialEq)]
enum Tok {
    Id(String),
    P(char),
}

fn lex(s: &str) -> Result<Vec<Tok>, String> {
    let mut out = vec![];
    let cs: Vec<char> = s.chars().collect();
    let mut i = 0;
    while i < cs.len() {
        let c = cs[i];
        if c.is_whitespace() {
            i += 1;
        } else if c.is_alphabetic() || c == '_' {
            let st = i;
            while i < cs.len() && (cs[i].is_alphanumeric() || cs[i] == '_') {
                i += 1;
            }
            out.push(Tok::Id(cs[st..i].iter().collect()));
        } else if "<>{}(),:;=!#[]".contains(c) {
            out.push(Tok::P(c));
            i += 1;
        } else {
            return Err(format!("character `{}` is outside the fragment", c));
        }
    }
    Ok(out)
}

struct Parser<'a> {
    t: Vec<Tok>,
    i: usize,
    /// declared ADTs (name -> arity) and traits (name -> number of parameters)
    adts: &'a BTreeMap<String, usize>,
    traits: &'a BTreeMap<String, usize>,
    /// existentially bound variables in scope (hypotheses must not mention them)
    evars: Vec<String>,
}

const KEYWORDS: &[&str] = &["struct", "trait", "impl", "for", "where", "forall", "exists", "not", "if", "enum", "fn", "dyn", "type", "opaque", "closure", "coroutine", "extern", "const", "compatible", "Self"];

impl<'a> Parser<'a> {
    fn peek(&self) -> Option<&Tok> {
        self.t.get(self.i)
    }
    fn eat_p(&mut self, c: char) -> bool {
        if self.peek() == Some(&Tok::P(c)) {
            self.i += 1;
            true
        } else {
            false
        }
    }
    fn expect_p(&mut self, c: char) -> Result<(), String> {
        if self.eat_p(c) {
            Ok(())
        } else {
            Err(format!("expected `{}` at token {} ({:?})", c, self.i, self.peek()))
        }
    }
    fn eat_kw(&mut self, k: &str) -> bool {
        if let Some(Tok::Id(s)) = self.peek() {
            if s == k {
                self.i += 1;
                return true;
            }
        }
        false
    }
    fn ident(&mut self) -> Result<String, String> {
        match self.peek().cloned() {
            Some(Tok::Id(s)) => {
                self.i += 1;
                Ok(s)
            }
            other => Err(format!("expected identifier, found {:?}", other)),
        }
    }
    fn generics(&mut self) -> Result<Vec<String>, String> {
        let mut v = vec![];
        if self.eat_p('<') {
            loop {
                if self.eat_p('>') {
                    break;
                }
                let id = self.ident()?;
                if KEYWORDS.contains(&id.as_str()) {
                    return Err(format!("`{}` in generics is outside the fragment", id));
                }
                v.push(id);
                if !self.eat_p(',') {
                    self.expect_p('>')?;
                    break;
                }
            }
        }
        Ok(v)
    }
    fn ty(&mut self, scope: &[String]) -> Result<Ty, String> {
        let id = self.ident()?;
        if scope.contains(&id) {
            return Ok(Ty::Var(id));
        }
        if let Some(&ar) = self.adts.get(&id) {
            let mut args = vec![];
            if self.eat_p('<') {
                loop {
                    if self.eat_p('>') {
                        break;
                    }
                    args.push(self.ty(scope)?);
                    if !self.eat_p(',') {
                        self.expect_p('>')?;
                        break;
                    }
                }
            }
            if args.len() != ar {
                return Err(format!("`{}` applied to {} arguments, declared with {}", id, args.len(), ar));
            }
            return Ok(Ty::Adt(id, args));
        }
        Err(format!("type `{}` is outside the fragment (not a declared struct or a variable in scope)", id))
    }
    fn pred_after_ty(&mut self, ty: Ty, scope: &[String]) -> Result<Pred, String> {
        self.expect_p(':')?;
        let tr = self.ident()?;
        let np = *self.traits.get(&tr).ok_or_else(|| format!("trait `{}` is not declared in the fragment", tr))?;
        let mut args = vec![];
        if self.eat_p('<') {
            loop {
                if self.eat_p('>') {
                    break;
                }
                args.push(self.ty(scope)?);
                if !self.eat_p(',') {
                    self.expect_p('>')?;
                    break;
                }
            }
        }
        if args.len() != np {
            return Err(format!("trait `{}` applied to {} arguments, declared with {}", tr, args.len(), np));
        }
        Ok(Pred { ty, tr, args })
    }
    fn pred(&mut self, scope: &[String]) -> Result<Pred, String> {
        let t = self.ty(scope)?;
        self.pred_after_ty(t, scope)
    }
    fn where_clauses(&mut self, scope: &[String]) -> Result<Vec<Pred>, String> {
        let mut v = vec![];
        if self.eat_kw("where") {
            loop {
                if self.peek() == Some(&Tok::P('{')) {
                    break;
                }
                v.push(self.pred(scope)?);
                if !self.eat_p(',') {
                    break;
                }
            }
        }
        Ok(v)
    }
    fn goal(&mut self, scope: &[String]) -> Result<Goal, String> {
        let mut parts = vec![self.goal1(scope)?];
        while self.eat_p(',') {
            parts.push(self.goal1(scope)?);
        }
        Ok(if parts.len() == 1 { parts.pop().unwrap() } else { Goal::And(parts) })
    }
    fn goal1(&mut self, scope: &[String]) -> Result<Goal, String> {
        if self.eat_p('(') {
            let g = self.goal(scope)?;
            self.expect_p(')')?;
            return Ok(g);
        }
        let is_forall = self.eat_kw("forall");
        let is_exists = !is_forall && self.eat_kw("exists");
        if is_forall || is_exists {
            let vs = self.generics()?;
            if vs.is_empty() {
                return Err("quantifier without variables".into());
            }
            self.expect_p('{')?;
            let mut sc = scope.to_vec();
            sc.extend(vs.iter().cloned());
            if is_exists {
                self.evars.extend(vs.iter().cloned());
            }
            let g = self.goal(&sc)?;
            self.expect_p('}')?;
            return Ok(if is_forall { Goal::Forall(vs, Box::new(g)) } else { Goal::Exists(vs, Box::new(g)) });
        }
        if self.eat_kw("not") {
            self.expect_p('{')?;
            // the fragment has `not` only around goals without unknown or universally quantified types
            // (chalk reads negation over `forall` variables universally; the properties avoid the question)
            let g = self.goal(&[])?;
            self.expect_p('}')?;
            return Ok(Goal::Not(Box::new(g)));
        }
        if self.eat_kw("if") {
            self.expect_p('(')?;
            let mut hs = vec![self.pred(scope)?];
            while self.eat_p(';') {
                hs.push(self.pred(scope)?);
            }
            self.expect_p(')')?;
            // the fragment's hypotheses speak about concrete or universally quantified types only
            let mut hv = vec![];
            for h in &hs {
                h.ty.vars(&mut hv);
                h.args.iter().for_each(|a| a.vars(&mut hv));
            }
            if hv.iter().any(|v| self.evars.contains(v)) {
                return Err("hypothesis mentions an unknown (existential) type: outside the fragment".into());
            }
            self.expect_p('{')?;
            let g = self.goal(scope)?;
            self.expect_p('}')?;
            return Ok(Goal::If(hs, Box::new(g)));
        }
        let t = self.ty(scope)?;
        if self.eat_p('=') {
            let b = self.ty(scope)?;
            return Ok(Goal::Eq(t, b));
        }
        Ok(Goal::Pred(self.pred_after_ty(t, scope)?))
    }
}

/// Parse a world's items and goals; Err = the world is outside the C01 fragment.
pub fn parse_world(w: &World) -> Result<(Prog, Vec<Result<Goal, String>>), String> {
    // pass 1: declarations
    let mut adts = BTreeMap::new();
    let mut traits = BTreeMap::new();
    let mut toks = vec![];
    for it in &w.items {
        let t = lex(it)?;
        let mut i = 0;
        // skip attributes
        while t.get(i) == Some(&Tok::P('#')) {
            while i < t.len() && t[i] != Tok::P(']') {
                i += 1;
            }
            i += 1;
        }
        match t.get(i) {
            Some(Tok::Id(k)) if k == "struct" || k == "trait" => {
                let name = match t.get(i + 1) {
                    Some(Tok::Id(n)) => n.clone(),
                    _ => return Err("item without a name".into()),
                };
                let mut n = 0;
                if t.get(i + 2) == Some(&Tok::P('<')) {
                    let mut j = i + 3;
                    while j < t.len() && t[j] != Tok::P('>') {
                        if let Tok::Id(_) = t[j] {
                            n += 1;
                        }
                        j += 1;
                    }
                }
                if k == "struct" {
                    adts.insert(name, n);
                } else {
                    traits.insert(name, n);
                }
            }
            Some(Tok::Id(k)) if k == "impl" => {}
            other => return Err(format!("item starting with {:?} is outside the fragment", other)),
        }
        toks.push(t);
    }
    let mut prog = Prog::default();
    for t in toks {
        let mut p = Parser { t, i: 0, adts: &adts, traits: &traits, evars: vec![] };
        let mut kind = TraitKind::Ind;
        while p.eat_p('#') {
            p.expect_p('[')?;
            let a = p.ident()?;
            match a.as_str() {
                "coinductive" => kind = TraitKind::Co,
                "auto" => kind = TraitKind::Auto,
                other => return Err(format!("attribute `{}` is outside the fragment", other)),
            }
            p.expect_p(']')?;
        }
        if p.eat_kw("struct") {
            let name = p.ident()?;
            let params = p.generics()?;
            if matches!(p.peek(), Some(Tok::Id(s)) if s == "where") {
                return Err("struct where-clauses are outside the fragment".into());
            }
            p.expect_p('{')?;
            let mut fields = vec![];
            loop {
                if p.eat_p('}') {
                    break;
                }
                let _f = p.ident()?;
                p.expect_p(':')?;
                fields.push(p.ty(&params)?);
                if !p.eat_p(',') {
                    p.expect_p('}')?;
                    break;
                }
            }
            prog.items.push(Item::Adt(AdtDecl { name, params, fields }));
        } else if p.eat_kw("trait") {
            let name = p.ident()?;
            let params = p.generics()?;
            let mut scope = params.clone();
            scope.push("Self".into());
            let wcs = p.where_clauses(&scope)?;
            p.expect_p('{')?;
            p.expect_p('}')?;
            prog.items.push(Item::Trait(TraitDecl { name, params, kind, wcs }));
        } else if p.eat_kw("impl") {
            let params = p.generics()?;
            let positive = !p.eat_p('!');
            let tr = p.ident()?;
            let np = *traits.get(&tr).ok_or_else(|| format!("impl of undeclared trait `{}`", tr))?;
            let mut args = vec![];
            if p.eat_p('<') {
                loop {
                    if p.eat_p('>') {
                        break;
                    }
                    args.push(p.ty(&params)?);
                    if !p.eat_p(',') {
                        p.expect_p('>')?;
                        break;
                    }
                }
            }
            if args.len() != np {
                return Err("trait arity mismatch in impl".into());
            }
            if !p.eat_kw("for") {
                return Err("expected `for`".into());
            }
            let self_ty = p.ty(&params)?;
            let wcs = p.where_clauses(&params)?;
            p.expect_p('{')?;
            p.expect_p('}')?;
            // impl parameters must all appear in the header (Rust's rule, and the fragment's)
            let mut used = vec![];
            self_ty.vars(&mut used);
            args.iter().for_each(|a| a.vars(&mut used));
            if params.iter().any(|q| !used.contains(q)) {
                return Err("impl parameter not in the impl header".into());
            }
            prog.items.push(Item::Impl(ImplDecl { params, tr, args, self_ty, wcs, positive }));
        } else {
            return Err("unknown item".into());
        }
        if p.i != p.t.len() {
            return Err("trailing tokens after item".into());
        }
    }
    let goals = w
        .goals
        .iter()
        .map(|g| {
            let t = lex(g)?;
            let mut p = Parser { t, i: 0, adts: &adts, traits: &traits, evars: vec![] };
            let goal = p.goal(&[])?;
            if p.i != p.t.len() {
                return Err("trailing tokens after goal".into());
            }
            Ok(goal)
        })
        .collect();
    Ok((prog, goals))
}

/// Is the whole world (program and at least one goal) inside the C01 fragment?
pub fn in_fragment(w: &World) -> bool {
    match parse_world(w) {
        Ok((p, goals)) => shape_ok(&p) && goals.iter().any(|g| g.is_ok()),
        Err(_) => false,
    }
}

/// Fragment side conditions that are not syntactic: no mixed inductive/coinductive CYCLES.
pub fn shape_ok(p: &Prog) -> bool {
    for im in p.impls() {
        if p.tr(&im.tr).is_none() || im.wcs.iter().any(|w| p.tr(&w.tr).is_none()) {
            return false;
        }
    }
    // "no mixed cycles" (the property's words): a coinductive impl may depend on an inductive goal as long as no
    // cycle of the dependency graph passes through both kinds
    if mixed_cycle(p) {
        return false;
    }
    // auto traits: no parameters, no where-clauses
    p.traits().all(|t| t.kind != TraitKind::Auto || (t.params.is_empty() && t.wcs.is_empty()))
}

// ------------------------------------------------------------------ generator

#[derive(Clone, Copy, Debug, PartialEq)]
pub enum Profile {
    /// default mix
    Any,
    /// same as Any (every generated world is in the fragment); kept for call-site clarity
    Fragment,
    /// auto / coinductive traits, recursive ADTs, negative impls, closed goals on concrete types
    Coinductive,
    /// supertrait hierarchies, goals under hypotheses
    Hyp,
    /// growth restrictions inverted (C09 only)
    Wild,
    /// many ground impls, goals with unknowns: answer enumeration (C03)
    Enum,
    /// small dense propositional programs: few concrete types, several traits of one kind, impls for
    /// concrete types whose where-clauses are concrete atoms; goals = all atoms (cycles whose head fails,
    /// members that are asked later, diamonds)
    Cyc,
    /// Cyc with a bias towards auto traits over (mutually) recursive structs with negative impls
    CycAuto,
    /// Cyc where coinductive impls may depend on inductive goals: mixed inductive/coinductive cycles. OUTSIDE the
    /// C01 fragment (`shape_ok` is false); only for checks that need no reference semantics (C04)
    CycMixed,
}

pub fn available() -> bool {
    true
}

struct Feats {
    co: bool,
    auto: bool,
    neg: bool,
    sup: bool,
    blanket: bool,
    overlap: bool,
    grow: bool,
    params: bool,
    cycles: bool,
    decreasing: bool,
}

pub struct GenOut {
    pub prog: Prog,
    pub goals: Vec<Goal>,
}

fn rand_ty(rng: &mut Rng, ar: &[(String, usize)], depth: usize, params: &[String], allow_params: bool) -> Ty {
    if !params.is_empty() && allow_params && rng.coin(40) {
        return Ty::Var(rng.pick(params).clone());
    }
    let zero: Vec<&(String, usize)> = ar.iter().filter(|a| a.1 == 0).collect();
    let (n, k) = if depth == 0 { (*rng.pick(&zero)).clone() } else { rng.pick(ar).clone() };
    Ty::Adt(n, (0..k).map(|_| rand_ty(rng, ar, depth.saturating_sub(1), params, allow_params)).collect())
}

fn gen_cyc(rng: &mut Rng, auto_bias: bool, mixed: bool) -> GenOut {
    let nty = if auto_bias { rng.range(2, 4) } else if rng.coin(65) { 1 } else { rng.range(2, 3) };
    let tys: Vec<String> = ["S", "T", "U", "R"].iter().take(nty).map(|s| s.to_string()).collect();
    let ntr = rng.range(3, 5);
    let names = ["A", "B", "C", "D", "E"];
    // kind of the world: all coinductive / all inductive / auto + coinductive / inductive on top of coinductive
    let mode = if auto_bias && rng.coin(70) { 7 } else { rng.below(10) };
    let mut traits: Vec<TraitDecl> = vec![];
    for (i, n) in names.iter().take(ntr).enumerate() {
        let kind = match mode {
            0..=4 => TraitKind::Co,
            5 | 6 => TraitKind::Ind,
            7 | 8 => if i == 0 { TraitKind::Auto } else { TraitKind::Co },
            _ => if i < 2 { TraitKind::Ind } else { TraitKind::Co },
        };
        let kind = if mixed { if (i + mode as usize) % 2 == 0 { TraitKind::Co } else { TraitKind::Ind } } else { kind };
        traits.push(TraitDecl { name: n.to_string(), params: vec![], kind, wcs: vec![] });
    }
    let mut prog = Prog::default();
    for (i, t) in tys.iter().enumerate() {
        // fields matter for the auto trait only: point at the other types (cycles) 
        let mut fields = vec![];
        if mode == 7 || mode == 8 {
            for _ in 0..rng.range(0, 3) {
                fields.push(Ty::Adt(rng.pick(&tys).clone(), vec![]));
            }
            if rng.coin(40) {
                fields.push(Ty::Adt(tys[(i + 1) % tys.len()].clone(), vec![]));
            }
        }
        prog.items.push(Item::Adt(AdtDecl { name: t.clone(), params: vec![], fields }));
    }
    let tinfo: Vec<(String, TraitKind)> = traits.iter().map(|t| (t.name.clone(), t.kind)).collect();
    for t in traits {
        prog.items.push(Item::Trait(t));
    }
    for ty in &tys {
        for (tn, tk) in &tinfo {
            if !rng.coin(if *tk == TraitKind::Auto { 35 } else { 65 }) {
                continue;
            }
            if *tk == TraitKind::Auto && rng.coin(35) {
                prog.items.push(Item::Impl(ImplDecl { params: vec![], tr: tn.clone(), args: vec![], self_ty: Ty::Adt(ty.clone(), vec![]), wcs: vec![], positive: false }));
                continue;
            }
            let mut wcs = vec![];
            let nwc = *rng.pick(&[0usize, 0, 1, 1, 1, 2, 2, 2, 3, 3]);
            for _ in 0..nwc {
                let cands: Vec<&(String, TraitKind)> = if *tk == TraitKind::Ind || mixed { tinfo.iter().collect() } else { tinfo.iter().filter(|x| x.1 != TraitKind::Ind).collect() };
                if cands.is_empty() {
                    continue;
                }
                let wt = (*rng.pick(&cands)).clone();
                let p = Pred { ty: Ty::Adt(rng.pick(&tys).clone(), vec![]), tr: wt.0, args: vec![] };
                if !wcs.contains(&p) {
                    wcs.push(p);
                }
            }
            prog.items.push(Item::Impl(ImplDecl { params: vec![], tr: tn.clone(), args: vec![], self_ty: Ty::Adt(ty.clone(), vec![]), wcs, positive: true }));
        }
    }
    // planted template (C05's own words: "a result that relied on a cyclic assumption that later turned out
    // false"): a cycle head H that also needs a failing atom F, members M.. of the cycle, and an outsider X that
    // depends on a member; where-clause order randomised. Only among traits of one kind (no mixed cycles).
    if rng.coin(35) {
        let co: Vec<&(String, TraitKind)> = tinfo.iter().filter(|t| t.1 == TraitKind::Co).collect();
        let ind: Vec<&(String, TraitKind)> = tinfo.iter().filter(|t| t.1 == TraitKind::Ind).collect();
        let same = if co.len() * tys.len() >= 4 && (ind.len() * tys.len() < 4 || rng.coin(60)) { co } else { ind };
        let pool: Vec<(String, String)> = tys.iter().flat_map(|ty| same.iter().map(move |t| (ty.clone(), t.0.clone()))).collect();
        if pool.len() >= 4 {
            let mut atoms = pool.clone();
            rng.shuffle(&mut atoms);
            let k = if atoms.len() >= 5 && rng.coin(40) { 2 } else { 1 };
            let h = atoms[0].clone();
            let ms: Vec<(String, String)> = atoms[1..1 + k].to_vec();
            let x = atoms[1 + k].clone();
            let f = atoms[2 + k].clone();
            let used: Vec<(String, String)> = atoms[..3 + k].to_vec();
            // drop the random impls of the template's atoms
            prog.items.retain(|it| match it {
                Item::Impl(im) => !used.iter().any(|(ty, tr)| im.tr == *tr && matches!(&im.self_ty, Ty::Adt(n, _) if n == ty)),
                _ => true,
            });
            let atom = |a: &(String, String)| Pred { ty: Ty::Adt(a.0.clone(), vec![]), tr: a.1.clone(), args: vec![] };
            let mk = |a: &(String, String), mut wcs: Vec<Pred>, rng: &mut Rng| {
                rng.shuffle(&mut wcs);
                Item::Impl(ImplDecl { params: vec![], tr: a.1.clone(), args: vec![], self_ty: Ty::Adt(a.0.clone(), vec![]), wcs, positive: true })
            };
            let mut hw = vec![atom(&ms[0])];
            if rng.coin(75) {
                hw.push(atom(&f));
            }
            if rng.coin(60) {
                hw.push(atom(&x));
            }
            prog.items.push(mk(&h, hw, rng));
            for (i, m) in ms.iter().enumerate() {
                let next = if i + 1 < ms.len() { atom(&ms[i + 1]) } else { atom(&h) };
                prog.items.push(mk(m, vec![next], rng));
                // sometimes a member has a second way to hold: through a leaf outside the cycle
                if atoms.len() > 3 + k && rng.coin(40) {
                    let leaf = atoms[3 + k].clone();
                    prog.items.retain(|it| match it {
                        Item::Impl(im) => !(im.tr == leaf.1 && matches!(&im.self_ty, Ty::Adt(n, _) if *n == leaf.0)),
                        _ => true,
                    });
                    let leaf_holds = rng.coin(70);
                    if leaf_holds {
                        prog.items.push(mk(&leaf, vec![], rng));
                    }
                    prog.items.push(mk(m, vec![atom(&leaf)], rng));
                }
            }
            let dep = rng.pick(&ms).clone();
            prog.items.push(mk(&x, vec![atom(&dep)], rng));
            // F keeps having no impl
        }
    }
    let mut goals = vec![];
    for ty in &tys {
        for (tn, _) in &tinfo {
            goals.push(Goal::Pred(Pred { ty: Ty::Adt(ty.clone(), vec![]), tr: tn.clone(), args: vec![] }));
        }
    }
    rng.shuffle(&mut goals);
    goals.truncate(12);
    for _ in 0..rng.range(0, 2) {
        let a = rng.pick(&goals).clone();
        let b = rng.pick(&goals).clone();
        goals.push(Goal::And(vec![a, b]));
    }
    GenOut { prog, goals }
}

/// Directed families over their own items (names `P2`, `N1`, `K0..`, `Lat`, `Mk`, `Reach`, `Small`, `Top`, `Grow`,
/// `Aux`), appended to a generated world. Each is one of the engines' core duties in its smallest form:
///  * Lattice — several impls of one trait on a binary constructor whose header arguments are constants or
///    parameters; goals ask for the whole self type or for one argument: the aggregated guidance must be exactly
///    the anti-unifier of all answers (SLG `merge_into_guidance` / `MayInvalidate`, recursive `Solution::combine`);
///    ground where-clauses delay some strands so that answer arrival order differs from declaration order.
///  * Chain — a recursive table that has to produce its 3rd, 4th.. answer: base fact + recursive impl (optionally
///    bounded by a guard trait), a marker at depth k, goals `exists<X> { X: Reach, X: Top }` in both orders.
///  * CoChain — a #[coinductive] trait with a guarded recursive impl, asked with an unknown (see below).
///  * Grow — a where-clause that grows its own header (`impl<T> Grow for N1<T> where N1<N1<T>>: Grow, T: Aux`): no
///    finite derivation, so the only correct answers are "no solution" or, at the size limit, Ambiguous; the other
///    where-clauses come before or after the growing one.
fn plant_templates(rng: &mut Rng, prog: &mut Prog, goals: &mut Vec<Goal>) {
    let k = |i: usize| Ty::Adt(format!("K{}", i), vec![]);
    let var = |n: &str| Ty::Var(n.to_string());
    let pr = |ty: Ty, t: &str| Pred { ty, tr: t.to_string(), args: vec![] };
    let ex = |vs: &[&str], g: Goal| Goal::Exists(vs.iter().map(|s| s.to_string()).collect(), Box::new(g));
    let nk = rng.range(2, 4);
    for i in 0..nk {
        prog.items.push(Item::Adt(AdtDecl { name: format!("K{}", i), params: vec![], fields: vec![] }));
    }
    prog.items.push(Item::Adt(AdtDecl { name: "N1".into(), params: vec!["T0".into()], fields: vec![] }));
    prog.items.push(Item::Trait(TraitDecl { name: "Mk".into(), params: vec![], kind: TraitKind::Ind, wcs: vec![] }));
    let mut mk_holds = vec![];
    for i in 0..nk {
        if i == 0 || rng.coin(60) {
            mk_holds.push(i);
            prog.items.push(Item::Impl(ImplDecl { params: vec![], tr: "Mk".into(), args: vec![], self_ty: k(i), wcs: vec![], positive: true }));
        }
    }
    let which = rng.below(12);
    if which >= 10 {
        // ---- CoChain: a user #[coinductive] trait whose recursive impl is guarded by an inductive bound, asked with an
        // unknown: the first round of the fixed point assumes "holds for every instantiation", the guard then pins one
        // substitution, and the next round has to confirm or refute THAT one
        let n1 = |t: Ty| Ty::Adt("N1".into(), vec![t]);
        prog.items.push(Item::Trait(TraitDecl { name: "CoC".into(), params: vec![], kind: TraitKind::Co, wcs: vec![] }));
        let mut wcs = vec![pr(var("T0"), "Mk"), pr(var("T0"), "CoC")];
        rng.shuffle(&mut wcs);
        prog.items.push(Item::Impl(ImplDecl { params: vec!["T0".into()], tr: "CoC".into(), args: vec![], self_ty: n1(var("T0")), wcs, positive: true }));
        if rng.coin(40) {
            // the leaf holds as well: then there are solutions (K0, N1<K0>) and the answers must say so
            prog.items.push(Item::Impl(ImplDecl { params: vec![], tr: "CoC".into(), args: vec![], self_ty: k(0), wcs: vec![], positive: true }));
        }
        goals.push(ex(&["X"], Goal::Pred(pr(var("X"), "CoC"))));
        goals.push(ex(&["X"], Goal::Pred(pr(n1(var("X")), "CoC"))));
        goals.push(Goal::Pred(pr(n1(k(0)), "CoC")));
        goals.push(Goal::Pred(pr(n1(n1(k(0))), "CoC")));
    } else if which < 5 {
        // ---- Lattice
        prog.items.push(Item::Adt(AdtDecl { name: "P2".into(), params: vec!["T0".into(), "T1".into()], fields: vec![] }));
        prog.items.push(Item::Trait(TraitDecl { name: "Lat".into(), params: vec![], kind: TraitKind::Ind, wcs: vec![] }));
        let disjoint = rng.coin(50);
        let mut heads: Vec<(Ty, Ty)> = vec![];
        let n = rng.range(2, 4);
        let mut tries = 0;
        while heads.len() < n && tries < 40 {
            tries += 1;
            let arg = |rng: &mut Rng, name: &str| -> Ty {
                match rng.below(10) {
                    0..=2 => Ty::Var(name.to_string()),
                    3 => Ty::Adt("N1".into(), vec![if rng.coin(50) { Ty::Var(name.to_string()) } else { Ty::Adt(format!("K{}", rng.below(nk)), vec![]) }]),
                    _ => Ty::Adt(format!("K{}", rng.below(nk)), vec![]),
                }
            };
            let h = (arg(rng, "T0"), arg(rng, "T1"));
            if heads.contains(&h) {
                continue;
            }
            if disjoint {
                let clash = heads.iter().any(|o| {
                    let ren = |t: &Ty, s: &str| {
                        let mut vs = vec![];
                        t.vars(&mut vs);
                        let m: BTreeMap<String, Ty> = vs.into_iter().map(|v| (v.clone(), Ty::Var(format!("{}{}", v, s)))).collect();
                        t.subst(&m)
                    };
                    let mut m = BTreeMap::new();
                    unify_ty(&ren(&o.0, "'a"), &ren(&h.0, "'b"), &mut m) && unify_ty(&ren(&o.1, "'a"), &ren(&h.1, "'b"), &mut m)
                });
                if clash {
                    continue;
                }
            }
            heads.push(h);
        }
        if rng.coin(35) && nk >= 3 {
            // canonical shape: two specific impls that agree in one argument, plus a fully generic one — the aggregate of
            // the first two (`P2<Ka, _>`) must be given up when the generic answer arrives, whatever the arrival order
            let (a, b, c) = (rng.below(nk), rng.below(nk), rng.below(nk));
            let c = if c == b { (b + 1) % nk } else { c };
            heads = if rng.coin(50) { vec![(k(a), k(b)), (k(a), k(c)), (var("T0"), var("T1"))] } else { vec![(k(b), k(a)), (k(c), k(a)), (var("T0"), var("T1"))] };
            rng.shuffle(&mut heads);
        }
        // "delayed" worlds: every impl has a where-clause, so that no strand is a plain fact and answers arrive in
        // declaration order
        let delayed = rng.coin(50);
        for (a, b) in &heads {
            let self_ty = Ty::Adt("P2".into(), vec![a.clone(), b.clone()]);
            let mut params = vec![];
            self_ty.vars(&mut params);
            params.sort();
            params.dedup();
            let mut wcs = vec![];
            for q in &params {
                if rng.coin(50) {
                    wcs.push(pr(var(q), "Mk"));
                }
            }
            if rng.coin(40) || delayed && wcs.is_empty() {
                // a ground where-clause that holds: the strand answers later than a plain fact
                wcs.push(pr(k(*rng.pick(&mk_holds)), "Mk"));
            }
            rng.shuffle(&mut wcs);
            prog.items.push(Item::Impl(ImplDecl { params, tr: "Lat".into(), args: vec![], self_ty, wcs, positive: true }));
        }
        let p2 = |a: Ty, b: Ty| Ty::Adt("P2".into(), vec![a, b]);
        goals.push(ex(&["X"], Goal::Pred(pr(var("X"), "Lat"))));
        goals.push(ex(&["X", "Y"], Goal::Pred(pr(p2(var("X"), var("Y")), "Lat"))));
        goals.push(ex(&["X"], Goal::Pred(pr(p2(var("X"), k(rng.below(nk))), "Lat"))));
        goals.push(ex(&["X"], Goal::Pred(pr(p2(k(rng.below(nk)), var("X")), "Lat"))));
        goals.push(Goal::Pred(pr(p2(k(rng.below(nk)), k(rng.below(nk))), "Lat")));
    } else if which < 8 {
        // ---- Chain
        let n1 = |t: Ty| Ty::Adt("N1".into(), vec![t]);
        let nest = |d: usize| {
            let mut t = k(0);
            for _ in 0..d {
                t = n1(t);
            }
            t
        };
        for t in ["Reach", "Top"] {
            prog.items.push(Item::Trait(TraitDecl { name: t.into(), params: vec![], kind: TraitKind::Ind, wcs: vec![] }));
        }
        prog.items.push(Item::Impl(ImplDecl { params: vec![], tr: "Reach".into(), args: vec![], self_ty: k(0), wcs: vec![], positive: true }));
        let guarded = rng.coin(60);
        let via = rng.coin(30);
        let mut wcs = vec![pr(var("T0"), if via { "Step" } else { "Reach" })];
        if guarded {
            let bound = rng.range(1, 3);
            prog.items.push(Item::Trait(TraitDecl { name: "Small".into(), params: vec![], kind: TraitKind::Ind, wcs: vec![] }));
            for d in 0..=bound {
                prog.items.push(Item::Impl(ImplDecl { params: vec![], tr: "Small".into(), args: vec![], self_ty: nest(d), wcs: vec![], positive: true }));
            }
            wcs.push(pr(var("T0"), "Small"));
            rng.shuffle(&mut wcs);
        }
        if via {
            // the recursion goes through a second trait: the enumerated table is on the stack but not on top of it
            prog.items.push(Item::Trait(TraitDecl { name: "Step".into(), params: vec![], kind: TraitKind::Ind, wcs: vec![] }));
            prog.items.push(Item::Impl(ImplDecl { params: vec!["T0".into()], tr: "Step".into(), args: vec![], self_ty: var("T0"), wcs: vec![pr(var("T0"), "Reach")], positive: true }));
        }
        prog.items.push(Item::Impl(ImplDecl { params: vec!["T0".into()], tr: "Reach".into(), args: vec![], self_ty: n1(var("T0")), wcs, positive: true }));
        let depth = rng.range(1, 4);
        prog.items.push(Item::Impl(ImplDecl { params: vec![], tr: "Top".into(), args: vec![], self_ty: nest(depth), wcs: vec![], positive: true }));
        let (a, b) = (Goal::Pred(pr(var("X"), "Reach")), Goal::Pred(pr(var("X"), "Top")));
        goals.push(ex(&["X"], Goal::And(vec![a.clone(), b.clone()])));
        goals.push(ex(&["X"], Goal::And(vec![b, a.clone()])));
        goals.push(Goal::Pred(pr(nest(depth), "Reach")));
        goals.push(Goal::Pred(pr(nest(depth + 1), "Reach")));
        if guarded {
            goals.push(ex(&["X"], a));
        }
    } else {
        // ---- Grow
        let n1 = |t: Ty| Ty::Adt("N1".into(), vec![t]);
        for t in ["Grow", "Aux"] {
            prog.items.push(Item::Trait(TraitDecl { name: t.into(), params: vec![], kind: TraitKind::Ind, wcs: vec![] }));
        }
        prog.items.push(Item::Impl(ImplDecl { params: vec![], tr: "Aux".into(), args: vec![], self_ty: k(0), wcs: vec![], positive: true }));
        prog.items.push(Item::Impl(ImplDecl { params: vec!["T0".into()], tr: "Aux".into(), args: vec![], self_ty: n1(var("T0")), wcs: vec![pr(var("T0"), "Aux")], positive: true }));
        let mut wcs = vec![pr(n1(n1(var("T0"))), "Grow")];
        for _ in 0..rng.range(0, 2) {
            wcs.push(pr(var("T0"), if rng.coin(70) { "Aux" } else { "Mk" }));
        }
        wcs.dedup();
        rng.shuffle(&mut wcs);
        prog.items.push(Item::Impl(ImplDecl { params: vec!["T0".into()], tr: "Grow".into(), args: vec![], self_ty: n1(var("T0")), wcs, positive: true }));
        if rng.coin(30) {
            prog.items.push(Item::Impl(ImplDecl { params: vec![], tr: "Grow".into(), args: vec![], self_ty: k(0), wcs: vec![], positive: true }));
        }
        goals.push(Goal::Pred(pr(n1(k(0)), "Grow")));
        goals.push(Goal::Pred(pr(n1(n1(k(0))), "Grow")));
        goals.push(Goal::Forall(vec!["F0".into()], Box::new(Goal::If(vec![pr(var("F0"), "Aux")], Box::new(Goal::Pred(pr(n1(var("F0")), "Grow")))))));
        goals.push(Goal::And(vec![Goal::Pred(pr(k(0), "Aux")), Goal::Pred(pr(n1(k(0)), "Grow"))]));
    }
}

pub fn gen(rng: &mut Rng, profile: Profile) -> GenOut {
    if profile == Profile::Cyc || profile == Profile::CycAuto || profile == Profile::CycMixed {
        return gen_cyc(rng, profile == Profile::CycAuto, profile == Profile::CycMixed);
    }
    let wild = profile == Profile::Wild;
    let coind = profile == Profile::Coinductive;
    let hyp = profile == Profile::Hyp;
    let enu = profile == Profile::Enum;
    let f = Feats {
        co: coind || rng.coin(50),
        auto: coind || rng.coin(50),
        neg: rng.coin(50),
        sup: hyp || rng.coin(50),
        blanket: rng.coin(50),
        overlap: rng.coin(35),
        grow: wild || rng.coin(25),
        params: rng.coin(50),
        cycles: wild || coind || rng.coin(50),
        decreasing: !wild && rng.coin(80),
    };
    // ADTs
    let nad = rng.range(2, 4);
    let mut ar: Vec<(String, usize)> = vec![];
    for (i, n) in ["A", "B", "C", "D"].iter().take(nad).enumerate() {
        ar.push((n.to_string(), if i < 2 { 0 } else { *rng.pick(&[0usize, 1, 1, 2]) }));
    }
    for n in ["V", "W"].iter().take(rng.range(1, 2)) {
        ar.push((n.to_string(), if *n == "V" { 1 } else { *rng.pick(&[1usize, 2]) }));
    }
    let mut prog = Prog::default();
    for (n, k) in &ar {
        let params: Vec<String> = (0..*k).map(|i| format!("T{}", i)).collect();
        let mut fields = vec![];
        for _ in 0..rng.range(0, 2) {
            fields.push(rand_ty(rng, &ar, 1, &params, true));
        }
        if rng.coin(if coind { 45 } else { 30 }) {
            fields.push(Ty::Adt(n.clone(), params.iter().map(|p| Ty::Var(p.clone())).collect()));
        }
        if rng.coin(if coind { 40 } else { 20 }) {
            let (o, ok) = rng.pick(&ar).clone();
            fields.push(Ty::Adt(o, (0..ok).map(|_| rand_ty(rng, &ar, 0, &params, true)).collect()));
        }
        prog.items.push(Item::Adt(AdtDecl { name: n.clone(), params, fields }));
    }
    // traits
    let ntr = rng.range(2, 4);
    let mut traits: Vec<TraitDecl> = vec![];
    for tn in ["Foo", "Bar", "Baz", "Qux"].iter().take(ntr) {
        let kind = if f.co && rng.coin(if coind { 60 } else { 35 }) { TraitKind::Co } else { TraitKind::Ind };
        let np = if f.params && rng.coin(30) { 1 } else { 0 };
        traits.push(TraitDecl { name: tn.to_string(), params: (0..np).map(|i| format!("P{}", i)).collect(), kind, wcs: vec![] });
    }
    if f.auto {
        traits.push(TraitDecl { name: "Send".into(), params: vec![], kind: TraitKind::Auto, wcs: vec![] });
        if coind && rng.coin(40) {
            traits.push(TraitDecl { name: "Sync".into(), params: vec![], kind: TraitKind::Auto, wcs: vec![] });
        }
    }
    if f.sup {
        let names: Vec<(String, usize, TraitKind)> = traits.iter().map(|t| (t.name.clone(), t.params.len(), t.kind)).collect();
        for t in traits.iter_mut() {
            if t.kind == TraitKind::Auto {
                continue;
            }
            for _ in 0..rng.range(0, if hyp { 3 } else { 2 }) {
                let cands: Vec<&(String, usize, TraitKind)> = names.iter().filter(|x| x.0 != t.name && x.2 != TraitKind::Auto).collect();
                if cands.is_empty() {
                    continue;
                }
                let tgt = (*rng.pick(&cands)).clone();
                let subj = if t.params.is_empty() || rng.coin(70) { Ty::Var("Self".into()) } else { Ty::Var(t.params[0].clone()) };
                let args = (0..tgt.1)
                    .map(|_| if rng.coin(50) || t.params.is_empty() { rand_ty(rng, &ar, 0, &[], false) } else { Ty::Var(t.params[0].clone()) })
                    .collect();
                let p = Pred { ty: subj, tr: tgt.0.clone(), args };
                if !t.wcs.contains(&p) {
                    t.wcs.push(p);
                }
            }
            // a where-clause that names the trait itself with other arguments (symmetry `trait Iso<T> where T: Iso<Self>`,
            // or a fixed instance `Self: Conv<A>`): implied bounds between instances of ONE trait
            if !t.params.is_empty() && rng.coin(if hyp { 30 } else { 12 }) {
                let p0 = Ty::Var(t.params[0].clone());
                let p = if rng.coin(65) {
                    Pred { ty: p0, tr: t.name.clone(), args: (0..t.params.len()).map(|_| Ty::Var("Self".into())).collect() }
                } else {
                    Pred { ty: Ty::Var("Self".into()), tr: t.name.clone(), args: (0..t.params.len()).map(|_| rand_ty(rng, &ar, 0, &[], false)).collect() }
                };
                if !t.wcs.contains(&p) {
                    t.wcs.push(p);
                }
            }
        }
    }
    let trait_info: Vec<(String, usize, TraitKind)> = traits.iter().map(|t| (t.name.clone(), t.params.len(), t.kind)).collect();
    for t in traits {
        prog.items.push(Item::Trait(t));
    }
    // impls
    let mut impls: Vec<ImplDecl> = vec![];
    for _ in 0..(if enu { rng.range(6, 14) } else { rng.range(2, 8) }) {
        let (tn, tnp, tk) = rng.pick(&trait_info).clone();
        let np = if enu { *rng.pick(&[0usize, 0, 0, 1, 1]) } else { *rng.pick(&[0usize, 0, 1, 1, 2]) };
        let params: Vec<String> = (0..np).map(|i| format!("T{}", i)).collect();
        let coish = tk != TraitKind::Ind;
        let mut self_ty = if f.blanket && np >= 1 && rng.coin(if coind && tk == TraitKind::Co { 4 } else { 20 }) && tk != TraitKind::Auto {
            Ty::Var(params[0].clone())
        } else {
            rand_ty(rng, &ar, 2, &params, true)
        };
        if let (Ty::Var(_), false) = (&self_ty, f.blanket && tk != TraitKind::Auto) {
            self_ty = Ty::Adt("V".into(), vec![self_ty]);
        }
        if tk == TraitKind::Auto {
            if let Ty::Var(_) = self_ty {
                self_ty = Ty::Adt("V".into(), vec![self_ty]);
            }
        }
        let mut args: Vec<Ty> = (0..tnp).map(|_| rand_ty(rng, &ar, 1, &params, true)).collect();
        if !params.is_empty() && rng.coin(18) {
            // non-linear header: the same parameter in two positions (`impl<T> Foo for Pair<T, T>`, `impl<T> Conv<T> for T`)
            let p = Ty::Var(params[0].clone());
            if let Some(a0) = args.get_mut(0) {
                *a0 = p.clone();
                if !matches!(self_ty, Ty::Var(_)) || tk != TraitKind::Auto {
                    if rng.coin(50) && tk != TraitKind::Auto && f.blanket {
                        self_ty = p.clone();
                    }
                }
            }
            if let Ty::Adt(n, a) = &self_ty {
                if a.len() >= 2 {
                    self_ty = Ty::Adt(n.clone(), a.iter().map(|_| p.clone()).collect());
                }
            }
        }
        let mut used = vec![];
        self_ty.vars(&mut used);
        args.iter().for_each(|a| a.vars(&mut used));
        let params: Vec<String> = params.into_iter().filter(|p| used.contains(p)).collect();
        let positive = !(tk == TraitKind::Auto && f.neg && rng.coin(40));
        let mut wcs = vec![];
        if positive {
            if enu && !params.is_empty() && tk == TraitKind::Ind {
                // guidance propagation between sibling where-clauses on the same parameter
                let ind: Vec<&(String, usize, TraitKind)> = trait_info.iter().filter(|x| x.2 == TraitKind::Ind && x.1 == 0 && x.0 != tn).collect();
                if !ind.is_empty() {
                    for _ in 0..rng.range(1, 2) {
                        let p = Pred { ty: Ty::Var(rng.pick(&params).clone()), tr: (*rng.pick(&ind)).0.clone(), args: vec![] };
                        if !wcs.contains(&p) {
                            wcs.push(p);
                        }
                    }
                }
            }
            for _ in 0..(if enu && (rng.coin(70) || !wcs.is_empty()) { 0 } else { rng.range(0, 2) }) {
                let cands: Vec<&(String, usize, TraitKind)> = if coish { trait_info.iter().filter(|x| x.2 != TraitKind::Ind).collect() } else { trait_info.iter().collect() };
                if cands.is_empty() {
                    continue;
                }
                let (wt, wnp, _) = (*rng.pick(&cands)).clone();
                let mut opts: Vec<Ty> = params.iter().map(|p| Ty::Var(p.clone())).collect();
                if let Ty::Adt(_, a) = &self_ty {
                    opts.extend(a.iter().cloned());
                }
                if f.cycles && !f.decreasing {
                    opts.push(self_ty.clone());
                }
                if f.grow && !f.decreasing && rng.coin(if wild { 60 } else { 30 }) {
                    opts.push(Ty::Adt("V".into(), vec![self_ty.clone()]));
                }
                if coind && f.cycles && rng.coin(50) {
                    // coinductive cycles through concrete types are the point of this profile
                    opts.push(self_ty.clone());
                    opts.push(rand_ty(rng, &ar, 1, &params, true));
                }
                if opts.is_empty() {
                    opts.push(rand_ty(rng, &ar, 0, &[], false));
                }
                let subj = rng.pick(&opts).clone();
                let wargs: Vec<Ty> = (0..wnp).map(|_| rand_ty(rng, &ar, 1, &params, true)).collect();
                if f.decreasing && !coind {
                    // size-decreasing: every where-clause type is a parameter or a strict subterm of the header
                    let ok = |t: &Ty| matches!(t, Ty::Var(_)) || t.is_strict_subterm_of(&self_ty) || !t.has_var() && t.size() == 1;
                    if !ok(&subj) || !wargs.iter().all(|a| ok(a)) {
                        continue;
                    }
                }
                wcs.push(Pred { ty: subj, tr: wt, args: wargs });
            }
        }
        impls.push(ImplDecl { params, tr: tn, args, self_ty, wcs, positive });
    }
    if f.overlap && !impls.is_empty() {
        let dup = rng.pick(&impls).clone();
        impls.push(dup);
    }
    if enu && rng.coin(35) {
        // planted scenario: definite guidance must flow between sibling where-clauses. P is ambiguous; Q holds
        // for `F<T> where T: P` (so `?X: Q` is ambiguous but definitely `F<_>`); R is ambiguous for an unknown but
        // unique once `F<_>` is known; `impl<T> Tr for W<T> where T: Q, T: R` (clause order randomised).
        let ind: Vec<String> = trait_info.iter().filter(|t| t.2 == TraitKind::Ind && t.1 == 0).map(|t| t.0.clone()).collect();
        let unary: Vec<String> = ar.iter().filter(|a| a.1 == 1).map(|a| a.0.clone()).collect();
        let nullary: Vec<String> = ar.iter().filter(|a| a.1 == 0).map(|a| a.0.clone()).collect();
        if ind.len() >= 3 && !unary.is_empty() && nullary.len() >= 2 {
            let (p, q, r) = (ind[0].clone(), ind[1].clone(), ind[2].clone());
            let tr = if ind.len() >= 4 { ind[3].clone() } else { p.clone() };
            let fcon = unary[0].clone();
            let wcon = unary[unary.len() - 1].clone();
            let (k1, k2) = (nullary[0].clone(), nullary[1].clone());
            let k3 = nullary[nullary.len() - 1].clone();
            impls.retain(|im| im.tr != q && im.tr != r && im.tr != p && !(im.tr == tr && matches!(&im.self_ty, Ty::Adt(n, _) if *n == wcon)));
            let t0 = || Ty::Var("T0".to_string());
            let n0 = |n: &String| Ty::Adt(n.clone(), vec![]);
            let pr = |ty: Ty, t: &String| Pred { ty, tr: t.clone(), args: vec![] };
            let mk = |tr: &String, params: Vec<String>, self_ty: Ty, wcs: Vec<Pred>| ImplDecl { params, tr: tr.clone(), args: vec![], self_ty, wcs, positive: true };
            impls.push(mk(&p, vec![], n0(&k1), vec![]));
            impls.push(mk(&p, vec![], n0(&k2), vec![]));
            impls.push(mk(&q, vec!["T0".into()], Ty::Adt(fcon.clone(), vec![t0()]), vec![pr(t0(), &p)]));
            impls.push(mk(&r, vec![], Ty::Adt(fcon.clone(), vec![n0(if rng.coin(50) { &k1 } else { &k2 })]), vec![]));
            impls.push(mk(&r, vec![], n0(&k3), vec![]));
            let mut wcs = vec![pr(t0(), &q), pr(t0(), &r)];
            rng.shuffle(&mut wcs);
            if tr != p || wcon != fcon {
                impls.push(mk(&tr, vec!["T0".into()], Ty::Adt(wcon.clone(), vec![t0()]), wcs));
            }
            rng.shuffle(&mut impls);
        }
    }
    for im in impls {
        prog.items.push(Item::Impl(im));
    }
    // goals
    let mut goals = vec![];
    let ng = rng.range(6, 10);
    for gi in 0..ng {
        let closed = !enu && (coind || gi < ng * 2 / 3 || hyp && gi < ng - 1);
        goals.push(gen_goal(rng, &prog, &ar, &trait_info, closed, profile));
    }
    if !wild && !coind && (enu && rng.coin(60) || !enu && rng.coin(12)) {
        plant_templates(rng, &mut prog, &mut goals);
    }
    GenOut { prog, goals }
}

fn gen_goal(rng: &mut Rng, prog: &Prog, ar: &[(String, usize)], traits: &[(String, usize, TraitKind)], closed: bool, profile: Profile) -> Goal {
    let tainted = co_tainted(prog);
    let wild = profile == Profile::Wild;
    struct Cx<'a> {
        ar: &'a [(String, usize)],
        traits: &'a [(String, usize, TraitKind)],
        ctr: usize,
        /// goal contains an unknown (exists) somewhere: keep user #[coinductive] traits out (F4/F10) unless wild
        open: bool,
        wild: bool,
        coind: bool,
        hyp: bool,
        tainted: Vec<String>,
        /// existential variables (never used in hypotheses)
        evars: Vec<String>,
    }
    fn ty(rng: &mut Rng, cx: &Cx, depth: usize, scope: &[String]) -> Ty {
        if !scope.is_empty() && rng.coin(45) {
            return Ty::Var(rng.pick(scope).clone());
        }
        let zero: Vec<&(String, usize)> = cx.ar.iter().filter(|a| a.1 == 0).collect();
        let (n, k) = if depth == 0 { (*rng.pick(&zero)).clone() } else { rng.pick(cx.ar).clone() };
        Ty::Adt(n, (0..k).map(|_| ty(rng, cx, depth.saturating_sub(1), scope)).collect())
    }
    fn pred(rng: &mut Rng, cx: &Cx, scope: &[String], for_not: bool) -> Pred {
        let cands: Vec<&(String, usize, TraitKind)> = cx
            .traits
            .iter()
            .filter(|t| {
                if for_not && (t.2 != TraitKind::Ind || cx.tainted.contains(&t.0)) {
                    return false; // `not` around predicates that reach coinductive/auto traits: SLG documents this as unsupported
                }
                if cx.open && !cx.wild && t.2 == TraitKind::Co {
                    return false;
                }
                true
            })
            .collect();
        if cands.is_empty() {
            // no admissible trait: fall back to an equality-like trivial predicate on the first trait
            let t = &cx.traits[0];
            return Pred { ty: ty(rng, cx, 1, &[]), tr: t.0.clone(), args: (0..t.1).map(|_| ty(rng, cx, 1, &[])).collect() };
        }
        let mut t = (*rng.pick(&cands)).clone();
        if cx.coind && !for_not {
            let co: Vec<&&(String, usize, TraitKind)> = cands.iter().filter(|t| t.2 != TraitKind::Ind).collect();
            if !co.is_empty() && rng.coin(80) {
                t = (**rng.pick(&co)).clone();
            }
        }
        let sc: &[String] = if for_not { &[] } else { scope };
        Pred { ty: ty(rng, cx, 2, sc), tr: t.0.clone(), args: (0..t.1).map(|_| ty(rng, cx, 1, sc)).collect() }
    }
    fn g(rng: &mut Rng, cx: &mut Cx, depth: usize, scope: &[String], under_if: bool) -> Goal {
        let r = rng.below(100);
        if cx.coind {
            // closed goals on concrete types, occasionally conjunctions
            if depth > 0 && r < 15 {
                return Goal::And(vec![g(rng, cx, depth - 1, scope, under_if), g(rng, cx, depth - 1, scope, under_if)]);
            }
            return Goal::Pred(pred(rng, cx, scope, false));
        }
        if depth == 0 || r < 35 {
            return Goal::Pred(pred(rng, cx, scope, false));
        }
        if r < 50 || cx.hyp && r < 60 {
            cx.ctr += 1;
            let v = format!("X{}", cx.ctr);
            let mut sc = scope.to_vec();
            sc.push(v.clone());
            return Goal::Forall(vec![v], Box::new(g(rng, cx, depth - 1, &sc, under_if)));
        }
        if r < 66 || cx.hyp && r < 85 {
            let mut hyps = vec![];
            for _ in 0..rng.range(1, 2) {
                let cands: Vec<&(String, usize, TraitKind)> = cx.traits.iter().filter(|t| t.2 == TraitKind::Ind || (t.2 == TraitKind::Co && !cx.open && !cx.hyp)).collect();
                if cands.is_empty() {
                    continue;
                }
                let t = (*rng.pick(&cands)).clone();
                let uscope: Vec<String> = if cx.wild { scope.to_vec() } else { scope.iter().filter(|v| !cx.evars.contains(v)).cloned().collect() };
                let hs = if !uscope.is_empty() && rng.coin(80) { Ty::Var(rng.pick(&uscope).clone()) } else { ty(rng, cx, 1, &uscope) };
                hyps.push(Pred { ty: hs, tr: t.0.clone(), args: (0..t.1).map(|_| ty(rng, cx, 1, &uscope)).collect() });
            }
            if hyps.is_empty() {
                return Goal::Pred(pred(rng, cx, scope, false));
            }
            return Goal::If(hyps, Box::new(g(rng, cx, depth - 1, scope, true)));
        }
        if r < 74 && !under_if {
            // `not` only around concrete predicates and never under a hypothesis
            let p = pred(rng, cx, &[], true);
            if cx.traits.iter().any(|t| t.0 == p.tr && t.2 == TraitKind::Ind) && !cx.tainted.contains(&p.tr) {
                return Goal::Not(Box::new(Goal::Pred(p)));
            }
            return Goal::Pred(pred(rng, cx, scope, false));
        }
        if r < 84 {
            return Goal::And(vec![g(rng, cx, depth - 1, scope, under_if), g(rng, cx, depth - 1, scope, under_if)]);
        }
        if r < 92 {
            let a = ty(rng, cx, 1, scope);
            let b = if rng.coin(50) { a.clone() } else { ty(rng, cx, 1, scope) };
            return Goal::Eq(a, b);
        }
        Goal::Pred(pred(rng, cx, scope, false))
    }
    let mut cx = Cx { ar, traits, ctr: 0, open: !closed, wild, coind: profile == Profile::Coinductive, hyp: profile == Profile::Hyp, tainted, evars: vec![] };
    if profile == Profile::Enum {
        // enumeration goals: predicates that really mention the unknowns
        let n = if rng.coin(40) { 2 } else { 1 };
        let vs: Vec<String> = (1..=n).map(|i| format!("X{}", i)).collect();
        cx.evars = vs.clone();
        let inductive: Vec<&(String, usize, TraitKind)> = traits.iter().filter(|t| t.2 == TraitKind::Ind).collect();
        let mut mk = |rng: &mut Rng| -> Goal {
            let t = if inductive.is_empty() { traits[0].clone() } else { (*rng.pick(&inductive)).clone() };
            let self_ty = if rng.coin(60) {
                Ty::Var(rng.pick(&vs).clone())
            } else {
                let gen: Vec<&(String, usize)> = ar.iter().filter(|a| a.1 > 0).collect();
                if gen.is_empty() {
                    Ty::Var(vs[0].clone())
                } else {
                    let (n, k) = (*rng.pick(&gen)).clone();
                    Ty::Adt(n, (0..k).map(|i| Ty::Var(if vs.len() > 1 && i < vs.len() { vs[i].clone() } else { rng.pick(&vs).clone() })).collect())
                }
            };
            let args = (0..t.1).map(|_| if rng.coin(50) { Ty::Var(rng.pick(&vs).clone()) } else { ty(rng, &cx, 1, &[]) }).collect();
            Goal::Pred(Pred { ty: self_ty, tr: t.0.clone(), args })
        };
        let body = if rng.coin(25) { Goal::And(vec![mk(rng), mk(rng)]) } else { mk(rng) };
        return Goal::Exists(vs, Box::new(body));
    }
    if !closed && !cx.coind && rng.coin(8) {
        // equality knots: unknowns are unified with each other first, then one of them with a type that mentions
        // another one of the same class (occurs check through the union-find) or an unrelated one (control)
        let gen: Vec<&(String, usize)> = ar.iter().filter(|a| a.1 > 0).collect();
        if !gen.is_empty() {
            let n = rng.range(2, 3);
            let vs: Vec<String> = (1..=n + 1).map(|i| format!("X{}", i)).collect();
            let mut eqs = vec![];
            for i in 0..n - 1 {
                let (a, b) = (Ty::Var(vs[i].clone()), Ty::Var(vs[i + 1].clone()));
                eqs.push(if rng.coin(50) { Goal::Eq(a, b) } else { Goal::Eq(b, a) });
            }
            let cyclic = rng.coin(60);
            let inner = if cyclic { vs[rng.below(n)].clone() } else { vs[n].clone() };
            let (c, k) = (*rng.pick(&gen)).clone();
            let pos = rng.below(k);
            let zero: Vec<&(String, usize)> = ar.iter().filter(|a| a.1 == 0).collect();
            let mut args: Vec<Ty> = (0..k).map(|_| Ty::Adt(rng.pick(&zero).0.clone(), vec![])).collect();
            args[pos] = if rng.coin(30) { Ty::Adt(c.clone(), (0..k).map(|_| Ty::Var(inner.clone())).collect()) } else { Ty::Var(inner.clone()) };
            let big = Ty::Adt(c, args);
            let lhs = Ty::Var(vs[rng.below(n)].clone());
            eqs.push(if rng.coin(50) { Goal::Eq(lhs, big) } else { Goal::Eq(big, lhs) });
            if rng.coin(40) {
                eqs.push(Goal::Pred(pred(rng, &cx, &vs, false)));
            }
            if rng.coin(50) {
                let last = eqs.len() - 1;
                let j = rng.below(eqs.len());
                eqs.swap(j, last);
            }
            return Goal::Exists(vs, Box::new(Goal::And(eqs)));
        }
    }
    if closed {
        g(rng, &mut cx, 3, &[], false)
    } else {
        let n = if rng.coin(25) { 2 } else { 1 };
        let vs: Vec<String> = (0..n)
            .map(|_| {
                cx.ctr += 1;
                format!("X{}", cx.ctr)
            })
            .collect();
        cx.evars = vs.clone();
        let body = g(rng, &mut cx, 2, &vs, false);
        Goal::Exists(vs, Box::new(body))
    }
}

pub fn unify_ty(a: &Ty, b: &Ty, m: &mut BTreeMap<String, Ty>) -> bool {
    fn walk(t: &Ty, m: &BTreeMap<String, Ty>) -> Ty {
        let mut t = t.clone();
        while let Ty::Var(v) = &t {
            match m.get(v) {
                Some(n) => t = n.clone(),
                None => break,
            }
        }
        t
    }
    fn occurs(v: &str, t: &Ty, m: &BTreeMap<String, Ty>) -> bool {
        match walk(t, m) {
            Ty::Var(w) => w == v,
            Ty::Adt(_, a) => a.iter().any(|x| occurs(v, x, m)),
            Ty::Sk(_) => false,
        }
    }
    let (x, y) = (walk(a, m), walk(b, m));
    match (&x, &y) {
        (Ty::Var(v), Ty::Var(w)) if v == w => true,
        (Ty::Var(v), t) | (t, Ty::Var(v)) => {
            if occurs(v, t, m) {
                false
            } else {
                m.insert(v.clone(), t.clone());
                true
            }
        }
        (Ty::Adt(n1, a1), Ty::Adt(n2, a2)) => n1 == n2 && a1.len() == a2.len() && a1.iter().zip(a2.iter()).all(|(p, q)| unify_ty(p, q, m)),
        (Ty::Sk(i), Ty::Sk(j)) => i == j,
        _ => false,
    }
}

/// do two positive impls of the same trait have unifiable headers (the program is not coherent)?
pub fn has_overlapping_impls(p: &Prog) -> bool {
    let impls: Vec<&ImplDecl> = p.impls().filter(|i| i.positive).collect();
    for i in 0..impls.len() {
        for j in i + 1..impls.len() {
            let (a, b) = (impls[i], impls[j]);
            if a.tr != b.tr {
                continue;
            }
            let ren = |im: &ImplDecl, sfx: &str| -> (Ty, Vec<Ty>) {
                let m: BTreeMap<String, Ty> = im.params.iter().map(|q| (q.clone(), Ty::Var(format!("{}{}", q, sfx)))).collect();
                (im.self_ty.subst(&m), im.args.iter().map(|t| t.subst(&m)).collect())
            };
            let (sa, aa) = ren(a, "'a");
            let (sb, ab) = ren(b, "'b");
            let mut m = BTreeMap::new();
            if unify_ty(&sa, &sb, &mut m) && aa.iter().zip(ab.iter()).all(|(x, y)| unify_ty(x, y, &mut m)) {
                return true;
            }
        }
    }
    false
}

/// hypotheses of the goal (`if (H) { .. }`), at any depth
pub fn hyps_of(g: &Goal, out: &mut Vec<Pred>) {
    match g {
        Goal::If(hs, b) => {
            out.extend(hs.iter().cloned());
            hyps_of(b, out)
        }
        Goal::And(v) => v.iter().for_each(|x| hyps_of(x, out)),
        Goal::Forall(_, b) | Goal::Exists(_, b) | Goal::Not(b) => hyps_of(b, out),
        Goal::Pred(_) | Goal::Eq(..) => {}
    }
}

/// does a hypothesis of the goal have the same trait as a positive impl whose header unifies with it (quantified
/// names of the goal read as variables)? Then hypothesis and impl are two clauses for the same goals.
pub fn hyp_overlaps_impl(p: &Prog, g: &Goal) -> bool {
    let mut hs = vec![];
    hyps_of(g, &mut hs);
    // what a hypothesis elaborates to (supertraits / trait where-clauses on Self): `if (A: Foo)` with `trait Foo where
    // Self: Qux` also provides `A: Qux`, which competes with the impls of Qux
    let elaborated = hs.iter().any(|h| {
        let mut seen: Vec<String> = vec![h.tr.clone()];
        let mut work = vec![h.tr.clone()];
        while let Some(t) = work.pop() {
            if let Some(td) = p.tr(&t) {
                for w in &td.wcs {
                    if matches!(&w.ty, Ty::Var(v) if v == "Self") && !seen.contains(&w.tr) {
                        seen.push(w.tr.clone());
                        work.push(w.tr.clone());
                    }
                }
            }
        }
        seen.iter().skip(1).any(|t| {
            p.impls().filter(|im| im.positive && &im.tr == t).any(|im| {
                let ren: BTreeMap<String, Ty> = im.params.iter().map(|q| (q.clone(), Ty::Var(format!("{}'i", q)))).collect();
                unify_ty(&im.self_ty.subst(&ren), &h.ty, &mut BTreeMap::new())
            })
        })
    });
    if elaborated {
        return true;
    }
    hs.iter().any(|h| {
        p.impls().filter(|im| im.positive && im.tr == h.tr && im.args.len() == h.args.len()).any(|im| {
            let ren: BTreeMap<String, Ty> = im.params.iter().map(|q| (q.clone(), Ty::Var(format!("{}'i", q)))).collect();
            let mut m = BTreeMap::new();
            unify_ty(&im.self_ty.subst(&ren), &h.ty, &mut m) && im.args.iter().zip(h.args.iter()).all(|(x, y)| unify_ty(&x.subst(&ren), y, &mut m))
        })
    })
}

/// does some cycle of the trait dependency graph (trait -> traits named in the where-clauses of its impls) contain
/// both an inductive and a coinductive/auto trait? (per-trait approximation of "mixed cycle")
pub fn mixed_cycle(p: &Prog) -> bool {
    let names: Vec<String> = p.traits().map(|t| t.name.clone()).collect();
    let edges = |n: &str| -> Vec<String> { p.impls().filter(|i| i.positive && i.tr == n).flat_map(|i| i.wcs.iter().map(|w| w.tr.clone())).collect() };
    let reach = |start: &str| -> Vec<String> {
        let mut seen: Vec<String> = vec![];
        let mut work = edges(start);
        while let Some(n) = work.pop() {
            if !seen.contains(&n) {
                seen.push(n.clone());
                work.extend(edges(&n));
            }
        }
        seen
    };
    let kind = |n: &str| p.tr(n).map(|t| t.kind != TraitKind::Ind).unwrap_or(false);
    for a in &names {
        let ra = reach(a);
        if !ra.contains(a) {
            continue;
        }
        for b in &ra {
            if kind(a) != kind(b) && reach(b).contains(a) {
                return true;
            }
        }
    }
    false
}

/// does the trait where-clause graph (supertraits, parameter bounds) contain a cycle?
pub fn implied_bound_cycle(p: &Prog) -> bool {
    let names: Vec<String> = p.traits().map(|t| t.name.clone()).collect();
    let edges = |n: &str| -> Vec<String> { p.tr(n).map(|t| t.wcs.iter().map(|w| w.tr.clone()).collect()).unwrap_or_default() };
    for start in &names {
        let mut seen: Vec<String> = vec![];
        let mut work = edges(start);
        while let Some(n) = work.pop() {
            if &n == start {
                return true;
            }
            if !seen.contains(&n) {
                seen.push(n.clone());
                work.extend(edges(&n));
            }
        }
    }
    false
}

/// traits whose derivations can reach a coinductive or auto trait (through impl where-clauses)
pub fn co_tainted(p: &Prog) -> Vec<String> {
    let mut t: Vec<String> = p.traits().filter(|t| t.kind != TraitKind::Ind).map(|t| t.name.clone()).collect();
    loop {
        let mut changed = false;
        for im in p.impls() {
            if !t.contains(&im.tr) && im.wcs.iter().any(|w| t.contains(&w.tr)) {
                t.push(im.tr.clone());
                changed = true;
            }
        }
        if !changed {
            return t;
        }
    }
}

pub fn to_world(o: &GenOut) -> World {
    World { source: "wgen".into(), items: o.prog.items.iter().map(render_item).collect(), goals: o.goals.iter().map(|g| g.show()).collect() }
}

pub fn gen_world(rng: &mut Rng, p: Profile) -> World {
    to_world(&gen(rng, p))
}

// ------------------------------------------------------------------ W-zoo (C18, C04, C28): all type shapes

/// Worlds over a zoo of type shapes the fragment does not have — scalars, tuples, arrays with concrete and
/// generic lengths, const-generic structs, raw pointers, function pointers, references — rendered directly as
/// chalk text. No reference model: used by equivalence checks (C18 filtered == unfiltered, C04, C28, C10).
pub fn gen_zoo(rng: &mut Rng) -> World {
    fn ty(rng: &mut Rng, depth: usize, tvars: &[String], cvars: &[String], lvars: &[String]) -> String {
        if !tvars.is_empty() && rng.coin(30) {
            return rng.pick(tvars).clone();
        }
        let leaf = |rng: &mut Rng| -> String { rng.pick(&["u32", "i32", "bool", "A", "B", "()"]).to_string() };
        if depth == 0 {
            return leaf(rng);
        }
        let n = |rng: &mut Rng, cvars: &[String]| -> String { if !cvars.is_empty() && rng.coin(50) { rng.pick(cvars).clone() } else { rng.pick(&["2", "3"]).to_string() } };
        let lt = |rng: &mut Rng| -> String { if !lvars.is_empty() && rng.coin(75) { rng.pick(lvars).clone() } else { "'static".to_string() } };
        match rng.below(13) {
            0 => format!("({}, {})", ty(rng, depth - 1, tvars, cvars, lvars), ty(rng, depth - 1, tvars, cvars, lvars)),
            1 => format!("[{}; {}]", ty(rng, depth - 1, tvars, cvars, lvars), n(rng, cvars)),
            2 => format!("S<{}>", n(rng, cvars)),
            3 => format!("P<{}>", ty(rng, depth - 1, tvars, cvars, lvars)),
            4 => format!("*const {}", ty(rng, depth - 1, tvars, cvars, lvars)),
            5 => format!("*mut {}", ty(rng, depth - 1, tvars, cvars, lvars)),
            6 => format!("fn({}) -> {}", ty(rng, depth - 1, tvars, cvars, lvars), ty(rng, depth - 1, tvars, cvars, lvars)),
            7 => format!("Q<{}, {}>", ty(rng, depth - 1, tvars, cvars, lvars), ty(rng, depth - 1, tvars, cvars, lvars)),
            8 => format!("[{}]", ty(rng, depth - 1, tvars, cvars, lvars)),
            9 => format!("({},)", ty(rng, depth - 1, tvars, cvars, lvars)),
            10 | 11 => format!("R<{}, {}>", lt(rng), ty(rng, depth - 1, tvars, cvars, lvars)),
            _ => leaf(rng),
        }
    }
    let mut items: Vec<String> = vec![
        "struct A { }".into(),
        "struct B { }".into(),
        "struct S<const N> { }".into(),
        "struct P<T> { }".into(),
        "struct Q<T, U> { }".into(),
        "struct R<'a, T> { }".into(),
        "trait Tr { }".into(),
        "trait Tr1<T> { }".into(),
        "trait Mk { }".into(),
    ];
    for _ in 0..rng.range(3, 9) {
        let nt = rng.below(3);
        let nc = if rng.coin(35) { 1 } else { 0 };
        let nl = if rng.coin(40) { 1 } else { 0 };
        let tv: Vec<String> = (0..nt).map(|i| format!("T{}", i)).collect();
        let cv: Vec<String> = (0..nc).map(|i| format!("N{}", i)).collect();
        let lv: Vec<String> = (0..nl).map(|i| format!("'l{}", i)).collect();
        let self_ty = ty(rng, 2, &tv, &cv, &lv);
        let (tr, targ) = match rng.below(3) {
            0 => ("Tr".to_string(), None),
            1 => ("Mk".to_string(), None),
            _ => ("Tr1".to_string(), Some(ty(rng, 1, &tv, &cv, &lv))),
        };
        let header = format!("{}{}", self_ty, targ.clone().unwrap_or_default());
        // impl parameters must appear in the header
        let tv: Vec<String> = tv.into_iter().filter(|v| header.contains(v.as_str())).collect();
        let cv: Vec<String> = cv.into_iter().filter(|v| header.contains(v.as_str())).collect();
        let lv: Vec<String> = lv.into_iter().filter(|v| header.contains(v.as_str())).collect();
        let mut gens: Vec<String> = lv.clone();
        gens.extend(tv.iter().cloned());
        gens.extend(cv.iter().map(|c| format!("const {}", c)));
        let wc = if !tv.is_empty() && rng.coin(35) { format!(" where {}: {}", rng.pick(&tv), rng.pick(&["Tr", "Mk"])) } else { String::new() };
        items.push(format!(
            "impl{} {}{} for {}{} {{ }}",
            if gens.is_empty() { String::new() } else { format!("<{}>", gens.join(", ")) },
            tr,
            targ.map(|t| format!("<{}>", t)).unwrap_or_default(),
            self_ty,
            wc
        ));
    }
    if rng.coin(50) {
        // impls whose header has a lifetime parameter and passes a type parameter through to the trait
        let leaf = rng.pick(&["A", "B", "u32"]).to_string();
        items.push(format!("impl<'l0, T0> Tr1<T0> for R<'l0, {}> {{ }}", leaf));
        if rng.coin(50) {
            items.push(format!("impl<'l0> Tr for R<'l0, {}> {{ }}", leaf));
        }
    }
    if rng.coin(35) {
        // impl parameters (const / type) used UNDER a binder of the header: fn pointers, with or without `for<'a>`
        let trn = rng.pick(&["Tr", "Mk"]).to_string();
        items.push(match rng.below(4) {
            0 => format!("impl<const N0> {} for fn(S<N0>) -> A {{ }}", trn),
            1 => format!("impl<T0, const N0> {} for fn([T0; N0]) -> T0 {{ }}", trn),
            2 => format!("impl<const N0> {} for for<'a> fn(R<'a, S<N0>>) -> () {{ }}", trn),
            _ => format!("impl<T0> {} for for<'a> fn(R<'a, T0>) -> P<T0> {{ }}", trn),
        });
    }
    let mut goals = vec![];
    for _ in 0..rng.range(5, 9) {
        let net = rng.below(3);
        let nec = if rng.coin(40) { 1 } else { 0 };
        let nel = if rng.coin(25) { 1 } else { 0 };
        let ev: Vec<String> = (0..net).map(|i| format!("X{}", i)).collect();
        let ec: Vec<String> = (0..nec).map(|i| format!("M{}", i)).collect();
        let el: Vec<String> = (0..nel).map(|i| format!("'e{}", i)).collect();
        let pred = |rng: &mut Rng, tv: &[String], cv: &[String], lv: &[String]| -> String {
            let t = ty(rng, 2, tv, cv, lv);
            match rng.below(3) {
                0 => format!("{}: Tr", t),
                1 => format!("{}: Mk", t),
                _ => format!("{}: Tr1<{}>", t, ty(rng, 1, tv, cv, lv)),
            }
        };
        let mut body = pred(rng, &ev, &ec, &el);
        let (mut ev, mut ec) = (ev, ec);
        if rng.coin(45) {
            // hypothesis whose clause is filtered by could_match against the goal: either unrelated, or the goal's own
            // predicate generalised (a const literal or a leaf type replaced by an unknown), so that it really unifies
            let h = if rng.coin(60) {
                let mut h = body.clone();
                if rng.coin(50) {
                    for lit in ["3", "2"] {
                        // a const literal, not a digit inside `i32` / `u32`
                        let hit = h.match_indices(lit).map(|(i, _)| i).find(|&i| {
                            let prev = h[..i].chars().last().unwrap_or(' ');
                            let next = h[i + 1..].chars().next().unwrap_or(' ');
                            !prev.is_alphanumeric() && !next.is_alphanumeric()
                        });
                        if let Some(i) = hit {
                            h.replace_range(i..i + 1, "MH");
                            ec.push("MH".into());
                            break;
                        }
                    }
                }
                if !h.contains("MH") || rng.coin(30) {
                    for leaf in ["u32", "i32", "bool"] {
                        if let Some(i) = h.find(leaf) {
                            h.replace_range(i..i + leaf.len(), "XH");
                            ev.push("XH".into());
                            break;
                        }
                    }
                }
                h
            } else {
                pred(rng, &ev, &ec, &el)
            };
            body = format!("if ({}) {{ {} }}", h, body);
        }
        match rng.below(10) {
            0 | 1 => {
                // universal type below a conjunction (not peeled): unknowns outside, fresh variables inside
                let mut tv = ev.clone();
                tv.push("F0".into());
                let inner = if !ev.is_empty() && rng.coin(60) {
                    // an unknown from outside the `forall` must be bound by something found inside it
                    format!("{}: Tr1<F0>", rng.pick(&ev))
                } else {
                    pred(rng, &tv, &ec, &el)
                };
                let inner = if inner.contains("F0") { inner } else { format!("{}, F0 = F0", inner) };
                body = format!("{}, forall<F0> {{ {} }}", body, inner);
            }
            2 => {
                let mut lv = el.clone();
                lv.push("'f0".into());
                let inner = pred(rng, &ev, &ec, &lv);
                body = format!("{}, forall<'f0> {{ {} }}", body, inner);
            }
            3 => {
                body = format!("forall<F0> {{ {} }}", body.replacen("A", "F0", 1));
            }
            _ => {}
        }
        let mut q: Vec<String> = el.clone();
        q.extend(ev.iter().cloned());
        q.extend(ec.iter().map(|c| format!("const {}", c)));
        let used: Vec<String> = q.into_iter().filter(|v| body.contains(v.trim_start_matches("const "))).collect();
        goals.push(if used.is_empty() { body } else { format!("exists<{}> {{ {} }}", used.join(", "), body) });
    }
    World { source: "wzoo".into(), items, goals }
}
