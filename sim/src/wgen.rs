//! W-gen (stub until the generator lands)
use crate::rng::Rng;
use crate::world::World;

#[derive(Clone, Copy, Debug, PartialEq)]
pub enum Profile { Any, Fragment }
pub fn available() -> bool { false }
pub fn gen_world(_rng: &mut Rng, _p: Profile) -> World { unreachable!() }
