//! The single source of randomness: splitmix64 for seed derivation, xoshiro256** per run.
//! Hand-written so that nothing (hash seeds, crates, platform) can perturb a run.

pub fn splitmix64(x: &mut u64) -> u64 {
    *x = x.wrapping_add(0x9E37_79B9_7F4A_7C15);
    let mut z = *x;
    z = (z ^ (z >> 30)).wrapping_mul(0xBF58_476D_1CE4_E5B9);
    z = (z ^ (z >> 27)).wrapping_mul(0x94D0_49BB_1331_11EB);
    z ^ (z >> 31)
}

/// FNV-1a over bytes; used for check-id mixing and for event-log hashes.
pub fn fnv(bytes: &[u8]) -> u64 {
    let mut h: u64 = 0xcbf2_9ce4_8422_2325;
    for b in bytes {
        h ^= *b as u64;
        h = h.wrapping_mul(0x0000_0100_0000_01B3);
    }
    h
}

/// seed of run `idx` of check `check` under VERIF_SEED `base`
pub fn run_seed(base: u64, check: &str, idx: u64) -> u64 {
    let mut s = base ^ fnv(check.as_bytes()).rotate_left(17) ^ idx.wrapping_mul(0xD6E8_FEB8_6659_FD93);
    let a = splitmix64(&mut s);
    let b = splitmix64(&mut s);
    a ^ b.rotate_left(32)
}

#[derive(Clone, Debug)]
pub struct Rng {
    s: [u64; 4],
}

impl Rng {
    pub fn new(seed: u64) -> Rng {
        let mut x = seed;
        let s = [splitmix64(&mut x), splitmix64(&mut x), splitmix64(&mut x), splitmix64(&mut x)];
        Rng { s }
    }
    pub fn next(&mut self) -> u64 {
        let r = self.s[1].wrapping_mul(5).rotate_left(7).wrapping_mul(9);
        let t = self.s[1] << 17;
        self.s[2] ^= self.s[0];
        self.s[3] ^= self.s[1];
        self.s[1] ^= self.s[2];
        self.s[0] ^= self.s[3];
        self.s[2] ^= t;
        self.s[3] = self.s[3].rotate_left(45);
        r
    }
    /// uniform in 0..n (n > 0)
    pub fn below(&mut self, n: usize) -> usize {
        debug_assert!(n > 0);
        (self.next() % n as u64) as usize
    }
    /// uniform in lo..=hi
    pub fn range(&mut self, lo: usize, hi: usize) -> usize {
        lo + self.below(hi - lo + 1)
    }
    /// true with probability pct/100
    pub fn coin(&mut self, pct: u32) -> bool {
        self.next() % 100 < pct as u64
    }
    pub fn pick<'a, T>(&mut self, v: &'a [T]) -> &'a T {
        &v[self.below(v.len())]
    }
    pub fn shuffle<T>(&mut self, v: &mut [T]) {
        for i in (1..v.len()).rev() {
            let j = self.below(i + 1);
            v.swap(i, j);
        }
    }
    pub fn fork(&mut self) -> Rng {
        Rng::new(self.next())
    }
}

/// Rolling hash used for event logs (order-sensitive).
#[derive(Clone, Copy, Debug)]
pub struct RollHash(pub u64);
impl RollHash {
    pub fn new() -> RollHash {
        RollHash(0x1234_5678_9abc_def1)
    }
    pub fn add(&mut self, v: u64) {
        self.0 = (self.0 ^ v).wrapping_mul(0x0000_0100_0000_01B3).rotate_left(23) ^ 0x9E37_79B9_7F4A_7C15;
    }
    pub fn add_str(&mut self, s: &str) {
        self.add(fnv(s.as_bytes()));
    }
}
