//! C10 — answers do not depend on what the same solver solved before; cache on == cache off.
//! Histories of operations on warm solver slots (SLG, recursive with private cache, without cache,
//! and two recursive solvers sharing one cache); after every operation the answer must equal the
//! answer of a fresh solver of the same configuration.

use super::*;

pub fn meta() -> CheckMeta {
    CheckMeta {
        id: "C10",
        level: "exploration",
        rule: "one run = one world (W-corpus entry or W-gen program) and one PRNG-drawn history of 3-40 solve / has_unique / solve_limited(always-continue) / completed solve_multiple operations over its goals on five warm solver slots (SLG, recursive cache-private, recursive cache-off, two recursive solvers sharing one cache); after EVERY operation the answer is compared with a fresh solver of the same configuration, and recursive cache-on with cache-off per goal. Non-trivial = the history re-poses a goal on a slot that has already solved a different goal (so warm state could matter); distinct = distinct event-log shape hash (slot kinds, op kinds, answer classes in order).",
        assumptions: vec![
            "Fresh(cfg, goal) = a brand-new solver on a pristine SimDb is the specification (the property's own words)",
            "operations whose fresh run exceeds the step budget or panics are excluded, not compared",
            "solve_multiple enters histories only for goals whose fresh enumeration completes without floundering (see C03 for the rest)",
            "sampled histories only (seeded search, not exhaustive)",
        ],
        real: "chalk-parse, chalk-integration lowering, chalk-solve, chalk-engine (SLG), chalk-recursive incl. Cache sharing",
        stubs: "SimDb (delegates every answer to the real Program), client",
    }
}

pub fn n_runs(tier: &str) -> u64 {
    if tier == "quick" { 6_000 } else { 250_000 }
}

pub fn gen(tier: &str, seed: u64, idx: u64, base: u64) -> Spec {
    let _ = tier;
    let mut rng = Rng::new(seed);
    let world = if rng.coin(8) { wgen::gen_zoo(&mut rng) } else { pick_world(&mut rng, base, idx, 55, wgen::Profile::Any) };
    let slots = vec![
        SlotCfg::slg(),
        SlotCfg::rec(),
        SlotCfg::rec_nocache(),
        SlotCfg::Rec { max_size: 30, overflow_depth: 100, caching: true, shared: Some(0) },
        SlotCfg::Rec { max_size: 30, overflow_depth: 100, caching: true, shared: Some(0) },
    ];
    let goals = usable_goals(&world, &["slg", "rec", "rec-nocache"]);
    let mut ops = vec![];
    if !goals.is_empty() {
        let n = rng.range(3, 40);
        // swarm: some runs concentrate on one or two slots
        let focus: Vec<usize> = if rng.coin(40) { vec![rng.below(5)] } else if rng.coin(30) { vec![3, 4] } else { (0..5).collect() };
        for _ in 0..n {
            let slot = *rng.pick(&focus);
            let goal = *rng.pick(&goals);
            let k = rng.below(100);
            let kind = if k < 66 {
                OpKind::Solve
            } else if k < 78 {
                OpKind::HasUnique
            } else if k < 90 {
                OpKind::Limited(Sched::Never)
            } else if slot == 0 {
                OpKind::Multi { stop_after: 0, cap: 48 }
            } else {
                OpKind::Solve
            };
            ops.push(Op { kind, slot, goal, fault: None });
        }
    }
    Spec { check: "C10".into(), world, slots, ops, db: DbCfg::default(), budget: 400_000, points: None, scheds: None, cap: 0, params: Default::default() }
}

pub fn exec(spec: &Spec, r: &mut RunResult) {
    let mut l = match lower(&spec.world) {
        Ok(l) => l,
        Err(e) => {
            r.outcome = "invalid-world".into();
            r.bump("excluded.invalid_world", 1);
            let _ = e;
            return;
        }
    };
    let p = l.p.clone();
    with_program(&p, || {
        lower_goals(&mut l, &spec.world);
        let db = mk_db(&l, &spec.db);
        let mut slots = make_slots(&spec.slots);
        let mut memo = FreshMemo::new();
        let mut rec = Recorder::new(true);
        let mut seen: Vec<Vec<usize>> = vec![vec![]; slots.len()];
        let mut poisoned = vec![false; slots.len()];
        let mut limit_hit = vec![false; spec.slots.len()];
        for (oi, op) in spec.ops.iter().enumerate() {
            let g = match l.goals.get(op.goal).and_then(|g| g.as_ref()) {
                Some(g) => g.clone(),
                None => {
                    r.bump("excluded.goal_unlowerable", 1);
                    continue;
                }
            };
            if poisoned[op.slot] {
                continue;
            }
            let cfg = spec.slots[op.slot].clone();
            let (fresh, _) = memo.get(&l, &cfg, op.goal, &op.kind, spec.budget).clone();
            if !fresh.is_answer() {
                r.bump("excluded.fresh_not_an_answer", 1);
                continue;
            }
            if let Out::Multi { answers, completed } = &fresh {
                if !*completed || answers.iter().any(|(a, _)| matches!(a, MultiAns::Floundered)) {
                    r.bump("excluded.multi_not_completing", 1);
                    continue;
                }
            }
            let (out, st) = run_op(&mut slots[op.slot], &db, &g, &op.kind, None, spec.budget);
            account(r, &out, &st, &op.kind);
            rec.op(&cfg, &op.kind, None, &out, &st, &spec.world.goals[op.goal]);
            if seen[op.slot].iter().any(|g| *g != op.goal) {
                r.nontrivial = true;
                r.bump("c10.warm_ops", 1);
            }
            seen[op.slot].push(op.goal);
            // sharing: the partner slot has seen it as well
            if let SlotCfg::Rec { shared: Some(gid), .. } = &cfg {
                for (si, c) in spec.slots.iter().enumerate() {
                    if si != op.slot {
                        if let SlotCfg::Rec { shared: Some(g2), .. } = c {
                            if g2 == gid {
                                seen[si].push(op.goal);
                            }
                        }
                    }
                }
            }
            match &out {
                Out::Budget => {
                    poisoned[op.slot] = true; // interrupted mid-solve by the harness: slot state is not a legal history
                    continue;
                }
                _ => {}
            }
            r.bump("c10.compared", 1);
            // the ORDER in which answers are enumerated is not part of the property: compare as multisets
            let norm = |o: &Out| -> Out {
                match o {
                    Out::Multi { answers, completed } => {
                        let mut a: Vec<(MultiAns, bool)> = answers.iter().map(|(x, _)| (x.clone(), false)).collect();
                        a.sort_by_key(|(x, _)| fmt_multi(x));
                        Out::Multi { answers: a, completed: *completed }
                    }
                    o => o.clone(),
                }
            };
            let limit = |p: &std::collections::BTreeMap<&'static str, u64>| p.get("solve.needs_truncation").cloned().unwrap_or(0) > 0 || p.get("slg.table_floundered").cloned().unwrap_or(0) > 0;
            let fresh_limit = limit(&memo.get(&l, &cfg, op.goal, &op.kind, spec.budget).1.probes);
            // a limit hit leaves floundered tables / truncated answers behind: later operations on the same solver state
            // (same slot, or a slot sharing its cache) see them without hitting the limit themselves
            let tainted_before = limit_hit[op.slot];
            if limit(&st.probes) {
                limit_hit[op.slot] = true;
                if let SlotCfg::Rec { shared: Some(gid), .. } = &cfg {
                    for (si, c2) in spec.slots.iter().enumerate() {
                        if matches!(c2, SlotCfg::Rec { shared: Some(g2), .. } if g2 == gid) {
                            limit_hit[si] = true;
                        }
                    }
                }
            }
            if norm(&out) != norm(&fresh) && (limit(&st.probes) || fresh_limit || tainted_before) {
                // a size limit fired: where a growing type gets cut depends on the path taken (C13's and C02's carve-out)
                r.bump("excluded.limit_reached_probe", 1);
                continue;
            }
            if norm(&out) != norm(&fresh) {
                let detail = format!(
                    "op #{} {} {:?} goal `{}`: warm answer `{}` but a fresh solver answers `{}`",
                    oi,
                    cfg.name(),
                    op.kind,
                    spec.world.goals[op.goal],
                    fmt_out(&out),
                    fmt_out(&fresh)
                );
                // signature facts: solver kind; program coherence; is one answer merely the weaker (ambiguous) form of the other?
                let mut sig = format!("{}:warm-differs-from-fresh", cfg.kind());
                if crate::ssim::overlap_tag(&spec.world, op.goal) {
                    sig.push_str("+overlap");
                }
                if crate::ssim::nonlinear_impl_header(&spec.world.items.join("\n")) {
                    sig.push_str("+nonlinear");
                }
                if let Ok((prog, _)) = wgen::parse_world(&spec.world) {
                    if let Some(Ok(ast)) = wgen::parse_world(&spec.world).ok().and_then(|(_, g)| g.get(op.goal).cloned()) {
                        let mut gp = vec![];
                        ast.preds(&mut gp);
                        let tainted = wgen::co_tainted(&prog);
                        if gp.iter().any(|p| tainted.contains(&p.tr)) {
                            sig.push_str("+co-reach");
                        }
                    }
                }
                if let (Out::Ans(a), Out::Ans(b)) = (&out, &fresh) {
                    let amb = |s: &Sol| s.as_ref().map(|x| x.is_ambig()).unwrap_or(false);
                    if (amb(a) || amb(b)) && cmp::contradiction(a, b).is_none() {
                        // one answer Unique and the other its ambiguous form, or two ambiguous answers with different guidance
                        sig.push_str(if amb(a) && amb(b) { "+guidance-differs" } else { "+unique-vs-ambig" });
                    }
                }
                r.violate("warm-differs-from-fresh", detail, Some(&sig));
                if matches!(out, Out::Panic(_)) {
                    poisoned[op.slot] = true;
                }
            }
        }
        // cache on == cache off, per goal (fresh solvers)
        let mut used: Vec<usize> = spec.ops.iter().map(|o| o.goal).collect();
        used.sort();
        used.dedup();
        for gi in used {
            if l.goals.get(gi).and_then(|g| g.as_ref()).is_none() {
                continue;
            }
            let (on, on_st) = memo.get(&l, &SlotCfg::rec(), gi, &OpKind::Solve, spec.budget).clone();
            let (off, off_st) = memo.get(&l, &SlotCfg::rec_nocache(), gi, &OpKind::Solve, spec.budget).clone();
            let lim = |p: &std::collections::BTreeMap<&'static str, u64>| p.get("solve.needs_truncation").cloned().unwrap_or(0) > 0;
            if on != off && (lim(&on_st.probes) || lim(&off_st.probes)) {
                r.bump("excluded.limit_reached_probe", 1);
                continue;
            }
            if on.is_answer() && off.is_answer() {
                r.bump("c10.cache_on_off_compared", 1);
                if on != off {
                    r.violate(
                        "cache-on-differs-from-cache-off",
                        format!("goal `{}`: recursive solver with cache `{}`, without cache `{}`", spec.world.goals[gi], fmt_out(&on), fmt_out(&off)),
                        Some(&{
                            let mut sig = format!("rec:cache-on-differs-from-cache-off{}", crate::ssim::static_tags(&spec.world, gi));
                            if let (Out::Ans(a), Out::Ans(b)) = (&on, &off) {
                                let amb = |s: &Sol| s.as_ref().map(|x| x.is_ambig()).unwrap_or(false);
                                if amb(a) != amb(b) && cmp::contradiction(a, b).is_none() {
                                    sig.push_str("+one-ambiguous");
                                }
                            }
                            sig
                        }),
                    );
                }
            } else {
                r.bump("excluded.cache_on_off_not_answers", 1);
            }
        }
        r.bump("sim.fresh_solves", memo.computed);
        r.shape = rec.shape.0;
        r.log = rec.log.0 ^ db.log_hash();
        if r.idx % 97 == 0 || !r.violations.is_empty() {
            r.sample = Some(serde_json::json!({"world": spec.world.source, "program": spec.world.program_text().chars().take(400).collect::<String>(), "history": rec.trace.iter().take(12).collect::<Vec<_>>()}));
        }
    });
}
