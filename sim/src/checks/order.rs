//! C13 — declaration order does not change solutions; C18 — clause pre-filtering never discards an
//! applicable clause. Both are equivalences between configurations of the same world.

use super::*;
use crate::world::has_lifetimes;

#[derive(Clone, Copy, PartialEq)]
pub enum Mode {
    C13,
    C18,
}

pub fn meta(m: Mode) -> CheckMeta {
    match m {
        Mode::C13 => CheckMeta {
            id: "C13",
            level: "exploration",
            rule: "one run = one lifetime-free world (W-corpus or W-gen) and K presentation orders of it: (a) the database seam permutes every list answer (impls_for_trait, program_clauses_for_env, custom_clauses, local_impls_to_coherence_check) with a per-call PRNG stream, (b) the program text is re-ordered (items; for fragment worlds also the where-clauses of every trait and impl and the fields of every struct) and parsed and lowered again, so ids, clause order and hash insertion order all change. Every goal is solved by a fresh SLG and a fresh recursive solver under each order; answers are compared with the original order's by item names with region constraints sorted. Runs in which the size-limit probe fired are excluded. Non-trivial = at least one database list of length >= 2 was actually permuted or the item order actually changed; distinct = distinct event-log shape hash.",
            assumptions: vec![
                "lifetime-free worlds only (as the property states); limit-reached runs excluded by the truncation / flounder probe",
                "programs with overlapping impls are kept but their order-dependence (weaker vs stronger answer) is attributed to known finding F14",
            ],
            real: "chalk-parse, lowering (ids follow declaration order), chalk-solve clause generation, chalk-engine, chalk-recursive",
            stubs: "SimDb (permutes list answers), client",
        },
        Mode::C18 => CheckMeta {
            id: "C18",
            level: "exploration",
            rule: "one run = one world and four database/filter configurations: filtered (unchanged), impls_for_trait answering with EVERY impl of the trait (a legal superset), could_match forced to true everywhere (cfg hook), and both. Every goal is solved by fresh solvers under each configuration and the answers must be equal; in the filtered configuration every impl that Program::impls_for_trait dropped from a query the solver really made is instantiated together with the query's canonical parameters in a scratch InferenceTable and the REAL unifier must fail on it. Non-trivial = the superset actually added impls or the forced pre-filter was actually consulted; distinct = distinct event-log shape hash.",
            assumptions: vec![
                "answer comparison skipped for worlds with lifetimes (region constraints may be named differently); the seam check still runs there",
                "limit-reached runs excluded by the truncation / flounder probe",
            ],
            real: "chalk-integration Program::impls_for_trait, chalk-ir could_match (MatchZipper), chalk-solve clause selection, the real unifier (InferenceTable::relate) as seam oracle",
            stubs: "SimDb (superset answers), could_match toggle hook (--cfg chalk_verif), client",
        },
    }
}

pub fn n_runs(m: Mode, tier: &str) -> u64 {
    let _ = m;
    if tier == "quick" { 3_000 } else { 200_000 }
}

fn permute_world(rng: &mut Rng, w: &World) -> World {
    let mut out = w.clone();
    if let Ok((prog, _)) = wgen::parse_world(w) {
        let mut items = prog.items.clone();
        for it in items.iter_mut() {
            match it {
                wgen::Item::Adt(a) => rng.shuffle(&mut a.fields),
                wgen::Item::Trait(t) => rng.shuffle(&mut t.wcs),
                wgen::Item::Impl(i) => rng.shuffle(&mut i.wcs),
            }
        }
        rng.shuffle(&mut items);
        out.items = items.iter().map(wgen::render_item).collect();
    } else {
        rng.shuffle(&mut out.items);
    }
    out
}

pub fn gen(m: Mode, tier: &str, seed: u64, idx: u64, base: u64) -> Spec {
    let _ = tier;
    let mut rng = Rng::new(seed);
    let mut world = if m == Mode::C18 && rng.coin(35) {
        wgen::gen_zoo(&mut rng)
    } else if rng.coin(if m == Mode::C13 { 42 } else { 30 }) {
        wgen::gen_world(&mut rng, wgen::Profile::Enum)
    } else {
        pick_world(&mut rng, base, idx, 50, wgen::Profile::Any)
    };
    if m == Mode::C13 {
        // lifetime-free; prefer coherent programs (a few redraws)
        for k in 0..12u64 {
            let bad = has_lifetimes(&world) || (k < 1 && wgen::parse_world(&world).map(|(p, _)| wgen::has_overlapping_impls(&p)).unwrap_or(false));
            if !bad {
                break;
            }
            world = pick_world(&mut rng, base, idx + 1000 * (k + 1), 60, wgen::Profile::Any);
        }
    }
    let goals = usable_goals(&world, &["slg", "rec"]);
    let ops = goals.iter().flat_map(|&g| (0..2).map(move |s| Op { kind: OpKind::Solve, slot: s, goal: g, fault: None })).collect();
    let mut params = std::collections::BTreeMap::new();
    params.insert("variant_seed".to_string(), (rng.next() >> 1) as i64);
    params.insert("variants".to_string(), 3);
    Spec { check: if m == Mode::C13 { "C13" } else { "C18" }.into(), world, slots: vec![SlotCfg::slg(), SlotCfg::rec()], ops, db: DbCfg::default(), budget: 300_000, points: None, scheds: None, cap: 0, params }
}

struct Ans {
    out: Out,
    names: String,
    limit: bool,
}

fn solve_all(l: &Lowered, spec: &Spec, dbcfg: &DbCfg, force_match: bool, seam: bool, r: &mut RunResult, rec: &mut Recorder) -> (Vec<Option<Ans>>, u64, u64, Vec<String>) {
    let mut res = vec![];
    let (mut permuted, mut extra) = (0, 0);
    let mut seam_bad = vec![];
    for op in &spec.ops {
        let g = match l.goals.get(op.goal).and_then(|g| g.as_ref()) {
            Some(g) => g.clone(),
            None => {
                res.push(None);
                continue;
            }
        };
        let db = mk_db(l, dbcfg);
        db.st.borrow_mut().seam = seam;
        let mut s = fresh_solver(&spec.slots[op.slot]);
        chalk_ir::verif::set_could_match_always(force_match);
        let (out, st) = run_op_on(&mut *s, &db, &db, &g, &op.kind, None, spec.budget);
        chalk_ir::verif::set_could_match_always(false);
        account(r, &out, &st, &op.kind);
        rec.op(&spec.slots[op.slot], &op.kind, None, &out, &st, &spec.world.goals[op.goal]);
        {
            let s = db.st.borrow();
            permuted += s.permuted_lists;
            extra += s.superset_extra;
            r.bump("c18.filtered_out_impls_checked_with_real_unifier", s.seam_checked);
            seam_bad.extend(s.seam_bad.iter().cloned());
        }
        r.bump("c18.prefilter_skipped_calls", st.probes.get("could_match.prefilter_skipped").cloned().unwrap_or(0));
        let limit = st.probes.get("solve.needs_truncation").cloned().unwrap_or(0) > 0 || st.probes.get("slg.table_floundered").cloned().unwrap_or(0) > 0;
        let names = match &out {
            Out::Ans(s) => cmp::names_fmt(s),
            o => fmt_out(o),
        };
        res.push(Some(Ans { out, names, limit }));
    }
    (res, permuted, extra, seam_bad)
}

pub fn exec(m: Mode, spec: &Spec, r: &mut RunResult) {
    let mut l = match lower(&spec.world) {
        Ok(l) => l,
        Err(_) => {
            r.outcome = "invalid-world".into();
            r.bump("excluded.invalid_world", 1);
            return;
        }
    };
    let frag = wgen::parse_world(&spec.world).ok();
    let overlap = frag.as_ref().map(|(p, _)| wgen::has_overlapping_impls(p)).unwrap_or(false);
    let mut rec = Recorder::new(false);
    let p = l.p.clone();
    let base = with_program(&p, || {
        lower_goals(&mut l, &spec.world);
        solve_all(&l, spec, &DbCfg::default(), false, m == Mode::C18, r, &mut rec)
    });
    let (base_ans, _, _, seam_bad) = base;
    if m == Mode::C18 {
        for b in seam_bad.iter().take(3) {
            r.violate("prefilter-dropped-unifiable-impl", b.clone(), Some("seam:unifiable"));
        }
    }
    let mut vr = Rng::new(*spec.params.get("variant_seed").unwrap_or(&1) as u64);
    let nvar = *spec.params.get("variants").unwrap_or(&3) as usize;
    let lifetimes = has_lifetimes(&spec.world);
    let variants: Vec<(String, DbCfg, bool, Option<World>)> = match m {
        Mode::C13 => {
            let mut v = vec![];
            for i in 0..nvar {
                v.push((format!("db-permutation#{}", i), DbCfg { perm_seed: Some(vr.next()), ..Default::default() }, false, None));
            }
            for i in 0..nvar {
                v.push((format!("text-permutation#{}", i), DbCfg::default(), false, Some(permute_world(&mut vr, &spec.world))));
            }
            v
        }
        Mode::C18 => vec![
            ("superset-impls".into(), DbCfg { superset: true, ..Default::default() }, false, None),
            ("could_match-forced-true".into(), DbCfg::default(), true, None),
            ("superset+forced".into(), DbCfg { superset: true, ..Default::default() }, true, None),
        ],
    };
    for (vname, dbcfg, force, world2) in variants {
        let (ans, permuted, extra) = match &world2 {
            None => {
                let (a, p_, e, _) = with_program(&p, || solve_all(&l, spec, &dbcfg, force, false, r, &mut rec));
                (a, p_, e)
            }
            Some(w2) => {
                if w2.items != spec.world.items {
                    r.nontrivial = true;
                    r.bump("fault.text_order_permuted", 1);
                }
                let mut l2 = match lower(w2) {
                    Ok(l2) => l2,
                    Err(e) => {
                        r.bump("excluded.permuted_text_does_not_lower", 1);
                        let _ = e;
                        continue;
                    }
                };
                let p2 = l2.p.clone();
                let (a, p_, e, _) = with_program(&p2, || {
                    lower_goals(&mut l2, w2);
                    solve_all(&l2, spec, &dbcfg, force, false, r, &mut rec)
                });
                (a, p_, e)
            }
        };
        if permuted > 0 {
            r.nontrivial = true;
            r.bump("fault.db_lists_permuted", permuted);
        }
        if extra > 0 {
            r.nontrivial = true;
            r.bump("fault.superset_extra_impls", extra);
        }
        if force {
            r.nontrivial = true;
            r.bump("fault.prefilter_forced_runs", 1);
        }
        for (i, (a, b)) in base_ans.iter().zip(ans.iter()).enumerate() {
            let (a, b) = match (a, b) {
                (Some(a), Some(b)) => (a, b),
                _ => continue,
            };
            if !a.out.is_answer() || !b.out.is_answer() {
                r.bump("excluded.not_an_answer", 1);
                continue;
            }
            if a.limit || b.limit {
                r.bump("excluded.limit_reached_probe", 1);
                continue;
            }
            r.bump("order.compared", 1);
            // worlds with lifetimes (C18 only): region constraints are not compared, kind of answer and types are
            let differs = if m == Mode::C18 && lifetimes {
                r.bump("c18.compared_modulo_lifetimes", 1);
                match (&a.out, &b.out) {
                    (Out::Ans(x), Out::Ans(y)) => !cmp::same_modulo_lifetimes(x, y),
                    _ => a.names != b.names,
                }
            } else {
                a.names != b.names
            };
            if differs {
                let op = &spec.ops[i];
                let cfg = &spec.slots[op.slot];
                let mut sig = format!("{}:differs", cfg.kind());
                if overlap || crate::ssim::overlap_tag(&spec.world, op.goal) {
                    sig.push_str("+overlap");
                }
                if let (Out::Ans(x), Out::Ans(y)) = (&a.out, &b.out) {
                    let amb = |s: &Sol| s.as_ref().map(|x| x.is_ambig()).unwrap_or(false);
                    if (amb(x) || amb(y)) && (world2.is_some() || cmp::contradiction(x, y).is_none()) {
                        // one answer Unique and the other its ambiguous form, or two ambiguous answers with different guidance
                        sig.push_str(if amb(x) && amb(y) { "+guidance-differs" } else { "+unique-vs-ambig" });
                    }
                }
                if let Some((prog, goals)) = &frag {
                    if let Some(Ok(ast)) = goals.get(op.goal) {
                        let mut gp = vec![];
                        ast.preds(&mut gp);
                        let t = wgen::co_tainted(prog);
                        if gp.iter().any(|p| t.contains(&p.tr)) {
                            sig.push_str("+co-reach");
                        }
                    }
                }
                if frag.as_ref().map(|(prog, _)| wgen::implied_bound_cycle(prog)).unwrap_or(false) {
                    sig.push_str("+implied-bound-cycle");
                }
                if crate::ssim::nonlinear_impl_header(&spec.world.items.join("\n")) {
                    sig.push_str("+nonlinear");
                }
                let class = if m == Mode::C13 { "order-changes-answer" } else { "filter-changes-answer" };
                if !r.violations.iter().any(|v| v.class == class) {
                    r.violate(
                        class,
                        format!("{} goal `{}` under {}: `{}` but originally `{}`{}", cfg.name(), spec.world.goals[op.goal], vname, b.names, a.names, world2.as_ref().map(|w| format!(" | permuted program: {}", w.items.join(" "))).unwrap_or_default()),
                        Some(&sig),
                    );
                }
            }
        }
    }
    r.shape = rec.shape.0;
    r.log = rec.log.0;
    if r.idx % 499 == 0 {
        r.sample = Some(serde_json::json!({"world": spec.world.source, "program": spec.world.program_text().chars().take(500).collect::<String>(), "goals": spec.world.goals.iter().take(6).collect::<Vec<_>>()}));
    }
}
