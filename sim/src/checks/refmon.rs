//! C01 / C02 / C05 / C06 — conformance of solver answers with the reference model `Ref`, checked on
//! every response of simulated runs: fresh, warm, after interruptions, after recovered panics, under
//! permuted / widened database answers, under reduced limits.

use super::*;
use crate::refcheck::{judge, Verdict};
use crate::wgen::{Goal, Prog};

#[derive(Clone, Copy, PartialEq)]
pub enum Mode {
    C01,
    C02,
    C05,
    C06,
}

fn id(m: Mode) -> &'static str {
    match m {
        Mode::C01 => "C01",
        Mode::C02 => "C02",
        Mode::C05 => "C05",
        Mode::C06 => "C06",
    }
}

pub fn meta(m: Mode) -> CheckMeta {
    let common_assumptions = vec![
        "Ref (sim/src/reference.rs) is the logical meaning: Horn clauses, lfp for ordinary traits, gfp for auto/#[coinductive] traits, fresh skolem for forall, hypotheses closed under trait where-clauses; three-valued, only certified contradictions alarm",
        "the input quantifier (programs, goals) is covered by seeded generation (W-gen) plus the W-corpus entries the fragment parser accepts — sampling, not enumeration",
        "goals with unknowns are judged over all types of depth <= 2 (bounded universe)",
    ];
    match m {
        Mode::C01 => CheckMeta {
            id: "C01",
            level: "exploration",
            rule: "one run = one fragment world, both solvers, one database behaviour (plain / permuted answers / superset impls) and one PRNG-drawn history of 6-30 operations (solve, limited-never, interrupted solve_limited, solve with an injected database panic followed by a retry). EVERY answer returned — fresh, warm, interrupted, after a recovered panic — is judged against Ref: 'No possible solution' needs no Ref-provable instance, 'Unique' needs every Ref-proved instance to be an instance of its substitution and no instance refuted, definite guidance must not exclude a proved instance. Non-trivial = at least one judged answer came from a perturbed context (warm slot, interruption, recovered panic, permuted/superset database); distinct = distinct event-log shape hash.",
            assumptions: common_assumptions,
            real: "chalk-parse, lowering, chalk-solve clause generation, chalk-engine, chalk-recursive",
            stubs: "SimDb (delegating), Ref (independent model, never touches chalk IR), client",
        },
        Mode::C02 => CheckMeta {
            id: "C02",
            level: "exploration",
            rule: "one run = one size-decreasing fragment world, closed goals only, solver limits drawn per run between the bound Ref measured for the world's derivations (largest type size, deepest ancestor stack) and the defaults; both solvers; every answer must be Unique or 'No possible solution' and equal Ref's verdict. Runs in which a limit was reached (recursive 'overflow depth reached'; answer differs from the default-limit answer) are excluded as limit-reached. Non-trivial = limits below the defaults were in force; distinct = distinct event-log shape hash.",
            assumptions: common_assumptions,
            real: "chalk-parse, lowering, chalk-solve (truncation), chalk-engine (AnswerMode, flounder), chalk-recursive (fixed point, overflow)",
            stubs: "SimDb (delegating), Ref, client",
        },
        Mode::C05 => CheckMeta {
            id: "C05",
            level: "exploration",
            rule: "one run = one world with auto / #[coinductive] traits, recursive and mutually recursive structs, positive and negative auto-trait impls; closed goals on concrete types (all members of the cycles) posed in PRNG order, repeatedly, on warm solvers (SLG, recursive cache on/off); every answer must equal Ref's greatest-fixed-point verdict AND a fresh solver's answer (a result that relied on a cyclic assumption must be neither reported nor reused). Non-trivial = Ref's derivation went through a coinductive cycle or auto-trait field recursion; distinct = distinct event-log shape hash.",
            assumptions: common_assumptions,
            real: "chalk-solve auto-trait clause generation and impl_provided_for, chalk-engine delayed subgoals / refinement strands, chalk-recursive coinductive initial value and cache promotion",
            stubs: "SimDb (delegating), Ref, client",
        },
        Mode::C06 => CheckMeta {
            id: "C06",
            level: "exploration",
            rule: "one run = one world with supertrait hierarchies (Self bounds, bounds on trait parameters, diamonds, cycles); goals `forall<T..> { if (H) { G } }` interleaved ON ONE SOLVER with the same G without H, with weaker H and with H about a different skolem, in PRNG order, database answers (incl. program_clauses_for_env) optionally permuted; every answer must equal Ref (hypotheses closed under trait where-clauses, computed independently) AND a fresh solver. Non-trivial = Ref's derivation used a hypothesis; distinct = distinct event-log shape hash.",
            assumptions: common_assumptions,
            real: "chalk-solve env elaboration and implied-bound clauses, chalk-engine table keys, chalk-recursive cache keys",
            stubs: "SimDb (delegating), Ref, client",
        },
    }
}

pub fn n_runs(m: Mode, tier: &str) -> u64 {
    let q = tier == "quick";
    match m {
        Mode::C01 => if q { 3_000 } else { 200_000 },
        Mode::C02 => if q { 3_000 } else { 150_000 },
        Mode::C05 => if q { 4_000 } else { 100_000 },
        Mode::C06 => if q { 3_000 } else { 150_000 },
    }
}

fn fragment_corpus_world(rng: &mut Rng, base: u64, idx: u64) -> Option<World> {
    let list = fragment_entries();
    if list.is_empty() {
        return None;
    }
    let _ = base;
    let e = list[(idx as usize + rng.below(list.len())) % list.len()];
    Some(corpus().world(e))
}

pub fn gen(m: Mode, tier: &str, seed: u64, idx: u64, base: u64) -> Spec {
    let _ = tier;
    let mut rng = Rng::new(seed);
    let profile = match m {
        Mode::C01 => wgen::Profile::Any,
        Mode::C02 => wgen::Profile::Any,
        Mode::C05 => wgen::Profile::Coinductive,
        Mode::C06 => wgen::Profile::Hyp,
    };
    let profile = if m == Mode::C01 && rng.coin(22) {
        wgen::Profile::Enum
    } else if m == Mode::C05 && rng.coin(30) {
        wgen::Profile::CycAuto
    } else if (m == Mode::C05 && rng.coin(30)) || (m == Mode::C01 && rng.coin(15)) || (m == Mode::C02 && rng.coin(15)) { wgen::Profile::Cyc } else { profile };
    let world = if m == Mode::C01 && rng.coin(12) { fragment_corpus_world(&mut rng, base, idx).unwrap_or_else(|| wgen::gen_world(&mut rng, profile)) } else { wgen::gen_world(&mut rng, profile) };
    let ng = world.goals.len();
    let mut params = std::collections::BTreeMap::new();
    let mut db = DbCfg::default();
    let (slots, ops): (Vec<SlotCfg>, Vec<Op>) = match m {
        Mode::C01 => {
            let slots = vec![SlotCfg::slg(), SlotCfg::rec()];
            match rng.below(4) {
                0 => {}
                1 => db.perm_seed = Some(rng.next()),
                2 => db.superset = true,
                _ => {
                    db.perm_seed = Some(rng.next());
                    db.superset = true;
                }
            }
            let mut ops = vec![];
            for _ in 0..rng.range(6, 30) {
                let slot = rng.below(2);
                let goal = rng.below(ng);
                let k = rng.below(100);
                if k < 60 {
                    ops.push(Op { kind: OpKind::Solve, slot, goal, fault: None });
                } else if k < 70 {
                    ops.push(Op { kind: OpKind::Limited(Sched::Never), slot, goal, fault: None });
                } else if k < 85 {
                    let s = match rng.below(4) {
                        0 => Sched::StopAt(rng.range(1, 10) as u64),
                        1 => Sched::From(rng.range(1, 10) as u64),
                        2 => Sched::Every(rng.range(2, 4) as u64),
                        _ => Sched::Coin { seed: rng.next(), pct: 25 },
                    };
                    ops.push(Op { kind: OpKind::Limited(s), slot, goal, fault: None });
                } else {
                    ops.push(Op { kind: OpKind::Solve, slot, goal, fault: Some(rng.range(1, 120) as u64) });
                    ops.push(Op { kind: OpKind::Solve, slot, goal, fault: None });
                }
            }
            (slots, ops)
        }
        Mode::C02 => {
            // limits are chosen at exec time from Ref's measurements; the draw is fixed here
            params.insert("knob_draw".into(), (rng.next() >> 2) as i64);
            params.insert("reduced".into(), if rng.coin(70) { 1 } else { 0 });
            params.insert("size_margin".into(), 0);
            let slots = vec![SlotCfg::slg(), SlotCfg::rec(), SlotCfg::rec_nocache()];
            let mut ops = vec![];
            for g in 0..ng {
                for s in 0..3 {
                    ops.push(Op { kind: if rng.coin(85) { OpKind::Solve } else { OpKind::Limited(Sched::Never) }, slot: s, goal: g, fault: None });
                }
            }
            rng.shuffle(&mut ops);
            (slots, ops)
        }
        Mode::C05 => {
            let slots = vec![SlotCfg::slg(), SlotCfg::rec(), SlotCfg::rec_nocache()];
            let mut ops = vec![];
            let rounds = rng.range(1, 3);
            for _ in 0..rounds {
                let mut order: Vec<usize> = (0..ng).collect();
                rng.shuffle(&mut order);
                for g in order {
                    for s in 0..3 {
                        if rng.coin(85) {
                            ops.push(Op { kind: OpKind::Solve, slot: s, goal: g, fault: None });
                        }
                    }
                }
            }
            (slots, ops)
        }
        Mode::C06 => {
            if rng.coin(50) {
                db.perm_seed = Some(rng.next());
            }
            let slots = vec![SlotCfg::slg(), SlotCfg::rec()];
            let mut ops = vec![];
            for _ in 0..rng.range(8, 36) {
                ops.push(Op { kind: OpKind::Solve, slot: rng.below(2), goal: rng.below(ng.max(1)), fault: None });
            }
            (slots, ops)
        }
    };
    let mut world = world;
    if m == Mode::C06 {
        world.goals = c06_goal_family(&mut rng, &world);
        // re-draw goal indices over the extended goal list
        let ng = world.goals.len();
        let mut ops2 = vec![];
        for o in &ops {
            ops2.push(Op { goal: rng.below(ng), ..o.clone() });
        }
        return Spec { check: id(m).into(), world, slots, ops: ops2, db, budget: 300_000, points: None, scheds: None, cap: 0, params };
    }
    Spec { check: id(m).into(), world, slots, ops, db, budget: 300_000, points: None, scheds: None, cap: 0, params }
}

/// C06: for every goal of the shape forall<..> { if (H) { G } } also pose G without H, with a weaker H
/// (one hypothesis dropped) and with H about a different skolem — the interleaving that would expose a leak.
fn c06_goal_family(rng: &mut Rng, world: &World) -> Vec<String> {
    let (_, goals) = match wgen::parse_world(world) {
        Ok(x) => x,
        Err(_) => return world.goals.clone(),
    };
    let mut out: Vec<String> = vec![];
    for g in goals.into_iter().flatten() {
        out.push(g.show());
        fn strip(g: &Goal, rng: &mut Rng, out: &mut Vec<Goal>) {
            match g {
                Goal::Forall(vs, b) => {
                    let mut inner = vec![];
                    strip(b, rng, &mut inner);
                    for i in inner {
                        out.push(Goal::Forall(vs.clone(), Box::new(i)));
                    }
                    // hypotheses about a different skolem: add a second variable and rename inside the hypotheses only
                    if let Goal::If(hs, body) = &**b {
                        let nv = format!("{}b", vs[0]);
                        let mut m = std::collections::BTreeMap::new();
                        m.insert(vs[0].clone(), wgen::Ty::Var(nv.clone()));
                        let hs2: Vec<wgen::Pred> = hs.iter().map(|h| h.subst(&m)).collect();
                        let mut vs2 = vs.clone();
                        vs2.push(nv);
                        out.push(Goal::Forall(vs2, Box::new(Goal::If(hs2, body.clone()))));
                    }
                }
                Goal::If(hs, b) => {
                    out.push((**b).clone());
                    if hs.len() > 1 {
                        let k = rng.below(hs.len());
                        let mut h2 = hs.clone();
                        h2.remove(k);
                        out.push(Goal::If(h2, b.clone()));
                    }
                }
                _ => {}
            }
        }
        let mut fam = vec![];
        strip(&g, rng, &mut fam);
        for f in fam {
            let s = f.show();
            if !out.contains(&s) {
                out.push(s);
            }
        }
    }
    if out.is_empty() {
        world.goals.clone()
    } else {
        out
    }
}

pub fn exec(m: Mode, spec: &Spec, r: &mut RunResult) {
    let (prog, goals): (Prog, Vec<Result<Goal, String>>) = match wgen::parse_world(&spec.world) {
        Ok(x) if wgen::shape_ok(&x.0) => x,
        _ => {
            r.outcome = "invalid-world".into();
            r.bump("excluded.world_outside_fragment", 1);
            return;
        }
    };
    let mut l = match lower(&spec.world) {
        Ok(l) => l,
        Err(_) => {
            r.outcome = "invalid-world".into();
            r.bump("excluded.invalid_world", 1);
            return;
        }
    };
    let p = l.p.clone();
    with_program(&p, || {
        lower_goals(&mut l, &spec.world);
        // C02: limits between Ref's measured bound and the defaults
        let mut slot_cfgs = spec.slots.clone();
        let mut reduced = false;
        if m == Mode::C02 && spec.params.get("reduced") == Some(&1) {
            let mut max_size = 1usize;
            let mut max_depth = 1usize;
            for g in goals.iter().flatten() {
                if g.has_exists() {
                    continue;
                }
                let (_, rf) = crate::reference::eval_closed(&prog, g, 60_000);
                let mut syn = vec![];
                g.preds(&mut syn);
                let syn_max = syn.iter().map(|p| p.ty.size().max(p.args.iter().map(|a| a.size()).max().unwrap_or(0))).max().unwrap_or(0);
                max_size = max_size.max(rf.max_size).max(syn_max);
                max_depth = max_depth.max(rf.max_depth);
            }
            let margin = *spec.params.get("size_margin").unwrap_or(&1) as usize;
            let mut kr = Rng::new(*spec.params.get("knob_draw").unwrap_or(&1) as u64);
            let lo_size = max_size + margin;
            let lo_depth = 3 * max_depth + 12;
            for c in slot_cfgs.iter_mut() {
                match c {
                    SlotCfg::Slg { max_size } => {
                        if lo_size < 10 {
                            *max_size = kr.range(lo_size, 10);
                            reduced = true;
                        }
                    }
                    SlotCfg::Rec { max_size, overflow_depth, .. } => {
                        if lo_size < 30 {
                            *max_size = kr.range(lo_size, 30);
                            reduced = true;
                        }
                        if lo_depth < 100 {
                            *overflow_depth = kr.range(lo_depth, 100);
                            reduced = true;
                        }
                    }
                }
            }
        }
        let tainted = wgen::co_tainted(&prog);
        let size_margin = *spec.params.get("size_margin").unwrap_or(&1) as usize;
        let db = mk_db(&l, &spec.db);
        let mut slots = make_slots(&slot_cfgs);
        let mut memo = FreshMemo::new();
        let mut rec = Recorder::new(true);
        let mut warm = vec![false; slots.len()];
        let mut poisoned = vec![false; slots.len()];
        let perturbed_db = spec.db.perm_seed.is_some() || spec.db.superset;
        let mut after_fault = vec![false; slots.len()];
        let mut after_interrupt = vec![false; slots.len()];
        for (oi, op) in spec.ops.iter().enumerate() {
            if poisoned[op.slot] {
                continue;
            }
            let (g, ast) = match (l.goals.get(op.goal).and_then(|g| g.as_ref()), goals.get(op.goal)) {
                (Some(g), Some(Ok(a))) => (g.clone(), a.clone()),
                _ => {
                    r.bump("excluded.goal_outside_fragment", 1);
                    continue;
                }
            };
            if m == Mode::C02 && ast.has_exists() {
                continue;
            }
            let cfg = slot_cfgs[op.slot].clone();
            let (out, st) = run_op(&mut slots[op.slot], &db, &g, &op.kind, op.fault, spec.budget);
            account(r, &out, &st, &op.kind);
            rec.op(&cfg, &op.kind, op.fault, &out, &st, &spec.world.goals[op.goal]);
            let interrupted = st.sc_false > 0;
            let truncated = st.probes.get("solve.needs_truncation").cloned().unwrap_or(0) > 0 || st.probes.get("slg.table_floundered").cloned().unwrap_or(0) > 0;
            match &out {
                Out::Faulted(..) => {
                    after_fault[op.slot] = true;
                    warm[op.slot] = true;
                    continue;
                }
                Out::Budget => {
                    poisoned[op.slot] = true;
                    continue;
                }
                Out::Panic(msg) => {
                    if msg.contains("overflow depth reached") {
                        r.bump("excluded.limit_reached_overflow", 1);
                        poisoned[op.slot] = true;
                        continue;
                    }
                    r.violate("solver-panicked", format!("op #{} {} {:?} on `{}`: {}", oi, cfg.name(), op.kind, spec.world.goals[op.goal], fmt_out(&out)), Some(&format!("{}:panic", cfg.kind())));
                    poisoned[op.slot] = true;
                    continue;
                }
                _ => {}
            }
            let sol = match out.sol() {
                Some(s) => s.clone(),
                None => continue,
            };
            let ctx_perturbed = warm[op.slot] || interrupted || after_fault[op.slot] || after_interrupt[op.slot] || perturbed_db || reduced;
            if interrupted {
                after_interrupt[op.slot] = true;
            }
            warm[op.slot] = true;
            let (verdict, facts) = judge(&prog, &ast, &l.p, &g, &sol, 40_000);
            r.bump("ref.judged", 1);
            if ctx_perturbed {
                r.bump("ref.judged_in_perturbed_context", 1);
            }
            if interrupted {
                r.bump("ref.judged_interrupted_answers", 1);
            }
            if after_fault[op.slot] {
                r.bump("ref.judged_after_recovered_panic", 1);
            }
            let nontrivial = match m {
                Mode::C01 => ctx_perturbed,
                Mode::C02 => reduced,
                Mode::C05 => facts.co_cycle_max_len > 0 || facts.used_auto_fields,
                Mode::C06 => facts.used_env,
            };
            if nontrivial {
                r.nontrivial = true;
            }
            r.bump("probe.ref_coinductive_cycle", if facts.co_cycle_max_len > 0 { 1 } else { 0 });
            r.bump("probe.ref_coinductive_cycle_multi_member", if facts.co_cycle_max_len > 1 { 1 } else { 0 });
            r.bump("probe.ref_inductive_cycle", if facts.ind_cycle_hits > 0 { 1 } else { 0 });
            r.bump("probe.ref_used_hypothesis", if facts.used_env { 1 } else { 0 });
            r.bump("probe.ref_implied_bound_cycle", if facts.closure_cycle { 1 } else { 0 });
            r.bump("probe.ref_auto_trait_fields", if facts.used_auto_fields { 1 } else { 0 });
            r.bump("probe.ref_negative_impl", if facts.used_negative_impl { 1 } else { 0 });
            let mut gp = vec![];
            ast.preds(&mut gp);
            let co_reach = gp.iter().any(|p| tainted.contains(&p.tr));
            let _ = co_reach;
            // static tags of (world, goal): +overlap, +co-reach, +implied-bound-cycle (same vocabulary in every check)
            let mut sig_facts = static_tags(&spec.world, op.goal);
            if facts.closure_cycle && !sig_facts.contains("+implied-bound-cycle") {
                sig_facts.push_str("+implied-bound-cycle");
            }
            let where_ = format!("op #{} {} {:?} on `{}` answered `{}`", oi, cfg.name(), op.kind, spec.world.goals[op.goal], fmt_sol(&sol));
            match verdict {
                Verdict::Undecided(why) => r.bump(&format!("ref.undecided.{}", why), 1),
                Verdict::Agree => r.bump("ref.agree", 1),
                Verdict::Contradiction { class, detail } => {
                    // C02's second sentence and C05/C06 "equal Ref" include contradictions; C01 is exactly this
                    let sig = format!("{}:{}{}", cfg.kind(), class, sig_facts);
                    r.violate(&class, format!("{}: {}", where_, detail), Some(&sig));
                }
                Verdict::AmbiguousClosed { ref_true } => {
                    r.bump("ref.ambiguous_closed", 1);
                    if interrupted {
                        r.bump("ref.ambiguous_closed_but_interrupted", 1);
                    } else if m != Mode::C01 {
                        // limit-reached exclusion, decided by the REFERENCE model's measurement of the derivation (largest
                        // type, deepest stack), not by chalk's own size accounting (which is part of what is under test):
                        // the answer is excluded only if the slot's limits are below what Ref needed for this goal
                        let (knob_size, knob_depth) = match &cfg {
                            SlotCfg::Slg { max_size } => (*max_size, usize::MAX),
                            SlotCfg::Rec { max_size, overflow_depth, .. } => (*max_size, *overflow_depth),
                        };
                        let mut syn = vec![];
                        ast.preds(&mut syn);
                        let syn_max = syn.iter().map(|p| p.ty.size().max(p.args.iter().map(|a| a.size()).max().unwrap_or(0))).max().unwrap_or(0);
                        let within = knob_size >= facts.max_size.max(syn_max) + size_margin && knob_depth >= 3 * facts.max_depth + 12;
                        let mut excluded = false;
                        if !within {
                            excluded = true;
                            r.bump("excluded.limit_below_reference_bound", 1);
                        } else if truncated {
                            r.bump("ref.ambiguous_closed_with_size_probe_fired_within_reference_bound", 1);
                        }
                        if !excluded {
                            let sig = format!("{}:ambiguous-closed{}", cfg.kind(), sig_facts);
                            r.violate(
                                "ambiguous-closed-goal",
                                format!("{}: the goal has no unknowns and Ref decides it ({})", where_, if ref_true { "true" } else { "false" }),
                                Some(&sig),
                            );
                        }
                    }
                }
            }
            // C05 / C06: warm == fresh as well (nothing relied on a stale cyclic assumption / leaked hypothesis)
            if (m == Mode::C05 || m == Mode::C06) && matches!(op.kind, OpKind::Solve) && !perturbed_db {
                let fresh = memo.get(&l, &cfg, op.goal, &OpKind::Solve, spec.budget).0.clone();
                if fresh.is_answer() {
                    r.bump("ref.fresh_compared", 1);
                    if Out::Ans(sol.clone()) != fresh {
                        r.violate("warm-differs-from-fresh", format!("{} but a fresh solver answers `{}`", where_, fmt_out(&fresh)), Some(&format!("{}:warm-differs-from-fresh{}", cfg.kind(), sig_facts)));
                    }
                }
            }
        }
        r.bump("sim.fresh_solves", memo.computed);
        r.shape = rec.shape.0;
        r.log = rec.log.0 ^ db.log_hash();
        if r.idx % 499 == 0 {
            r.sample = Some(serde_json::json!({"program": spec.world.program_text(), "goals": spec.world.goals, "slots": slot_cfgs.iter().map(|c| c.name()).collect::<Vec<_>>(), "db": spec.db, "history": rec.trace.iter().take(10).collect::<Vec<_>>()}));
        }
    });
}
