//! C09 — every solve call terminates: bounded liveness on the step clock (database calls), with a
//! wall-clock guard and process isolation for loops that never reach the seam.

use super::*;

pub fn meta() -> CheckMeta {
    CheckMeta {
        id: "C09",
        level: "exploration",
        rule: "one run = ONE (world, goal, solver configuration, operation) so that a hang or abort is attributed exactly: worlds from W-wild (growth restrictions inverted: polymorphic recursion, growing where-clauses, unbounded answer sets), W-gen, the coinductive profile and every W-corpus entry; SLG with max_size in 1..=10, recursive solver (caching on) with max_size in 1..=30 and overflow depth in {5, 20, 100}; operation solve / solve_limited(always continue) / solve_multiple with an always-true consumer (capped at 2000 callbacks). Violation = step budget (3,000,000 database calls) exhausted, wall-clock guard (30 s, re-run once in isolation), process abort (stack overflow), or a panic other than the documented carve-outs ('overflow depth reached'; SLG 'negative cycle was detected'). Non-trivial = the operation made more than 1000 database calls or used reduced limits; distinct = distinct event-log shape hash.",
        assumptions: vec![
            "recursive solver with caching disabled is not claimed (exponential by design)",
            "the wall-clock guard is a harness safety net 1000x above a normal solve; a timeout is re-run once in isolation before it is believed",
            "an enumeration of an infinite answer set is bounded by the consumer (cap), not a violation",
        ],
        real: "chalk-parse, lowering, chalk-solve, chalk-engine, chalk-recursive",
        stubs: "SimDb (step clock + budget), client",
    }
}

pub fn n_runs(tier: &str) -> u64 {
    if tier == "quick" { 4_000 } else { 200_000 }
}

pub fn gen(tier: &str, seed: u64, idx: u64, base: u64) -> Spec {
    let _ = tier;
    let mut rng = Rng::new(seed);
    let k = rng.below(100);
    let world = if rng.coin(1) {
        // hand-written programs met during the work on this framework (regressions of fixed findings and instances of
        // open ones that no generator produces: custom clauses, `not` under `forall`)
        let (items, goals): (&[&str], &[&str]) = *rng.pick(&[
            (&["#[auto] trait Send { }", "struct A { }"][..], &["forall<T> { not { T: Send } }"][..]),
            (&["struct Vec<T> { }", "trait Marker { }", "impl<T> Marker for Vec<T> { }"][..], &["forall<T> { not { T: Marker } }", "not { forall<T> { T: Marker } }"][..]),
            (&["trait Foo { }", "trait Bar { }", "struct A { }", "forall<X> { X: Foo if forall<Y> { if (Y: Bar) { X: Foo } } }"][..], &["A: Foo"][..]),
        ]);
        World { source: "hand".into(), items: items.iter().map(|s| s.to_string()).collect(), goals: goals.iter().map(|s| s.to_string()).collect() }
    } else if k < 35 {
        wgen::gen_world(&mut rng, wgen::Profile::Wild)
    } else if k < 55 {
        wgen::gen_world(&mut rng, wgen::Profile::Any)
    } else if k < 70 {
        wgen::gen_world(&mut rng, wgen::Profile::Coinductive)
    } else {
        // every corpus entry, tagged ones included
        let c = corpus();
        let mut e = corpus_pick(c, base ^ 0x99, idx);
        let mut guard = 0;
        while c.entries[e].goals.is_empty() && guard < 1000 {
            e = (e + 1) % c.entries.len();
            guard += 1;
        }
        c.world(e)
    };
    let reduced = rng.coin(45);
    let slot = if rng.coin(50) {
        SlotCfg::Slg { max_size: if reduced { rng.range(1, 10) } else { 10 } }
    } else {
        SlotCfg::Rec { max_size: if reduced { rng.range(1, 30) } else { 30 }, overflow_depth: if reduced { *rng.pick(&[5usize, 20, 100]) } else { 100 }, caching: true, shared: None }
    };
    let mut ops = vec![];
    if !world.goals.is_empty() {
        let goal = rng.below(world.goals.len());
        let k = rng.below(100);
        let kind = if k < 55 {
            OpKind::Solve
        } else if k < 75 || !slot.is_slg() {
            OpKind::Limited(Sched::Never)
        } else {
            OpKind::Multi { stop_after: 0, cap: 2000 }
        };
        ops.push(Op { kind, slot: 0, goal, fault: None });
    }
    let mut params = std::collections::BTreeMap::new();
    params.insert("reduced".to_string(), reduced as i64);
    Spec { check: "C09".into(), world, slots: vec![slot], ops, db: DbCfg::default(), budget: 3_000_000, points: None, scheds: None, cap: 0, params }
}

/// facts about a run that are known without executing it (used for the signature of a hang)
pub fn static_sig(spec: &Spec, class: &str) -> String {
    let cfg = &spec.slots[0];
    // unbounded work shows as the wall-clock guard or as the step budget, whichever comes first on this machine: one
    // class for the signature
    let class = if class == "step-budget-exhausted" { "did-not-terminate" } else { class };
    let mut sig = format!("{}:{}", cfg.kind(), class);
    if let Some(op) = spec.ops.first() {
        let gt = &spec.world.goals[op.goal];
        if crate::ssim::hyp_mentions_unknown(gt) {
            sig.push_str("+unknown-in-hyp");
        }
        if let Ok((prog, goals)) = wgen::parse_world(&spec.world) {
            if wgen::implied_bound_cycle(&prog) {
                sig.push_str("+implied-bound-cycle");
            }
            // a where-clause that is larger than the header it belongs to and shares a parameter with it
            let grows = prog.impls().any(|im| {
                let mut hv = vec![];
                im.self_ty.vars(&mut hv);
                im.wcs.iter().any(|w| {
                    let mut wv = vec![];
                    w.ty.vars(&mut wv);
                    w.ty.size() > im.self_ty.size() && wv.iter().any(|v| hv.contains(v))
                })
            });
            if grows {
                sig.push_str("+grow");
            }
            if let Some(Ok(ast)) = goals.get(op.goal) {
                let mut gp = vec![];
                ast.preds(&mut gp);
                let t = wgen::co_tainted(&prog);
                if gp.iter().any(|p| t.contains(&p.tr)) {
                    sig.push_str("+co-reach");
                }
            } else if prog.traits().any(|t| t.kind != wgen::TraitKind::Ind) {
                sig.push_str("+co-reach");
            }
        } else {
            sig.push_str("+outside-fragment");
        }
        if gt.contains("exists") {
            sig.push_str("+unknown");
        }
        if gt.contains("not {") || spec.world.items.iter().any(|i| i.contains("not {")) {
            sig.push_str("+negation");
        }
        if spec.world.items.iter().any(|i| i.contains(" if forall<")) {
            sig.push_str("+forall-in-clause-body");
        }
    }
    sig
}

pub fn exec(spec: &Spec, r: &mut RunResult) {
    if spec.ops.is_empty() {
        r.bump("excluded.no_goal", 1);
        return;
    }
    let mut l = match lower(&spec.world) {
        Ok(l) => l,
        Err(_) => {
            r.outcome = "invalid-world".into();
            r.bump("excluded.invalid_world", 1);
            return;
        }
    };
    let p = l.p.clone();
    with_program(&p, || {
        lower_goals(&mut l, &spec.world);
        let op = &spec.ops[0];
        let g = match l.goals.get(op.goal).and_then(|g| g.as_ref()) {
            Some(g) => g.clone(),
            None => {
                r.bump("excluded.goal_unlowerable", 1);
                return;
            }
        };
        let db = mk_db(&l, &spec.db);
        let mut slots = make_slots(&spec.slots);
        let mut rec = Recorder::new(true);
        let (out, st) = run_op(&mut slots[0], &db, &g, &op.kind, None, spec.budget);
        account(r, &out, &st, &op.kind);
        rec.op(&spec.slots[0], &op.kind, None, &out, &st, &spec.world.goals[op.goal]);
        r.bump("c09.max_db_calls_bucket", 0);
        if st.db_calls > 1000 || spec.params.get("reduced") == Some(&1) {
            r.nontrivial = true;
        }
        if st.db_calls > 100_000 {
            r.bump("c09.ops_over_100k_steps", 1);
        }
        match &out {
            Out::Budget => {
                r.violate("step-budget-exhausted", format!("{} {:?} on `{}` made more than {} database calls", spec.slots[0].name(), op.kind, spec.world.goals[op.goal], spec.budget), Some(&static_sig(spec, "step-budget-exhausted")));
            }
            Out::Panic(m) => {
                if m.contains("overflow depth reached") {
                    r.bump("excluded.documented_overflow_panic", 1);
                } else if m.contains("negative cycle was detected") {
                    r.bump("excluded.documented_negative_cycle_panic", 1);
                } else {
                    r.violate("panicked", format!("{} {:?} on `{}` panicked: {}", spec.slots[0].name(), op.kind, spec.world.goals[op.goal], m.chars().take(200).collect::<String>()), Some(&static_sig(spec, "panicked")));
                }
            }
            Out::Multi { completed, answers } => {
                if !*completed {
                    r.bump("c09.enumerations_stopped_by_consumer_cap", 1);
                }
                let _ = answers;
            }
            _ => {}
        }
        r.shape = rec.shape.0 ^ (st.db_calls.max(1).ilog2() as u64);
        r.log = rec.log.0 ^ db.log_hash();
        if r.idx % 499 == 0 {
            r.sample = Some(serde_json::json!({"world": spec.world.source, "program": spec.world.program_text().chars().take(400).collect::<String>(), "op": rec.trace}));
        }
    });
}
