//! C03 — SLG answer enumeration is sound, duplicate-free and complete; the `more` flag is accurate.
//! The protocol with the consumer callback (seam S3) is the subject: stop after any answer, come
//! back later on the same solver.

use super::*;
use crate::reference::{eval_exists, first_occurrence_order};
use crate::refcheck::conv_ty;
use crate::wgen::{match_ty, Goal};
use chalk_integration::interner::ChalkIr;
use std::collections::BTreeMap;

pub fn meta() -> CheckMeta {
    CheckMeta {
        id: "C03",
        level: "exploration",
        rule: "one run = one world and one goal (mostly with unknowns) on the SLG solver; a fresh full enumeration E (capped at 64 callbacks) is recorded with its flags; then for EVERY j <= |E| a new solver enumerates with the consumer stopping at callback j, the same solver is asked to enumerate again (resume) and to solve (aggregate). Checks over the callback log: no definite answer twice; `more == false` only at the last callback of a completed enumeration and `more == true` at all others; a stopped-and-resumed enumeration repeats E (exactly for completing enumerations, as a prefix otherwise); aggregated solve on the warm solver == fresh solve and Unique iff exactly one definite answer; on fragment worlds every definite answer is true in Ref for all its instances (bounded universe) and, for completed enumerations without ambiguous answers, every Ref solution is an instance of a yielded answer. Non-trivial = the enumeration has >= 2 callbacks and the consumer actually stopped early at least once; distinct = distinct event-log shape hash.",
        assumptions: vec![
            "enumerations are capped (64 callbacks); completeness is only judged for enumerations that complete below the cap, as the property states (finite solution sets)",
            "Ref judges answers over all types of depth <= 2",
            "goals tagged as hanging / documented-panic on the unchanged tree are not posed",
        ],
        real: "chalk-engine (AnswerStream, Forest::iter_answers, solve_multiple, table answer caching), chalk-solve",
        stubs: "SimDb (delegating), consumer callback driven by the schedule, Ref, client",
    }
}

pub fn n_runs(tier: &str) -> u64 {
    if tier == "quick" { 3_000 } else { 200_000 }
}

pub fn gen(tier: &str, seed: u64, idx: u64, base: u64) -> Spec {
    let _ = tier;
    let mut rng = Rng::new(seed);
    let world = if rng.coin(60) { wgen::gen_world(&mut rng, wgen::Profile::Enum) } else { pick_world(&mut rng, base, idx, 60, wgen::Profile::Any) };
    let goals = usable_goals(&world, &["slg"]);
    let mut ops = vec![];
    if !goals.is_empty() {
        // prefer goals with unknowns
        let ex: Vec<usize> = goals.iter().cloned().filter(|g| world.goals[*g].contains("exists")).collect();
        let g = if !ex.is_empty() && rng.coin(85) { *rng.pick(&ex) } else { *rng.pick(&goals) };
        ops.push(Op { kind: OpKind::Multi { stop_after: 0, cap: 64 }, slot: 0, goal: g, fault: None });
    }
    Spec { check: "C03".into(), world, slots: vec![SlotCfg::slg()], ops, db: DbCfg::default(), budget: 400_000, points: None, scheds: None, cap: 64, params: Default::default() }
}

type Ans = Vec<(MultiAns, bool)>;

fn enumerate(slot: &mut Slot, db: &SimDb, g: &G, stop_after: usize, cap: usize, budget: u64, r: &mut RunResult, rec: &mut Recorder, cfg: &SlotCfg, gt: &str) -> Option<(Ans, bool)> {
    let kind = OpKind::Multi { stop_after, cap };
    let (out, st) = run_op(slot, db, g, &kind, None, budget);
    account(r, &out, &st, &kind);
    rec.op(cfg, &kind, None, &out, &st, gt);
    match out {
        Out::Multi { answers, completed } => Some((answers, completed)),
        Out::Budget => {
            r.bump("excluded.step_budget", 0);
            None
        }
        Out::Panic(m) => {
            r.violate("enumeration-panicked", format!("solve_multiple(stop_after={}) on `{}` panicked: {}", stop_after, gt, m.chars().take(200).collect::<String>()), Some("slg:enumeration-panicked"));
            None
        }
        _ => None,
    }
}

pub fn exec(spec: &Spec, r: &mut RunResult) {
    if spec.ops.is_empty() {
        r.bump("excluded.no_usable_goal", 1);
        return;
    }
    let mut l = match lower(&spec.world) {
        Ok(l) => l,
        Err(_) => {
            r.outcome = "invalid-world".into();
            r.bump("excluded.invalid_world", 1);
            return;
        }
    };
    let frag = wgen::parse_world(&spec.world).ok().filter(|(p, _)| wgen::shape_ok(p));
    let p = l.p.clone();
    with_program(&p, || {
        lower_goals(&mut l, &spec.world);
        let gi = spec.ops[0].goal;
        let gt = spec.world.goals[gi].clone();
        let g = match l.goals.get(gi).and_then(|g| g.as_ref()) {
            Some(g) => g.clone(),
            None => {
                r.bump("excluded.goal_unlowerable", 1);
                return;
            }
        };
        let cfg = spec.slots[0].clone();
        let cap = spec.cap.max(2) as usize;
        let mut rec = Recorder::new(false);
        let co_reach = frag
            .as_ref()
            .and_then(|(prog, goals)| goals.get(gi).and_then(|a| a.as_ref().ok()).map(|ast| {
                let mut gp = vec![];
                ast.preds(&mut gp);
                let t = wgen::co_tainted(prog);
                gp.iter().any(|p| t.contains(&p.tr))
            }))
            .unwrap_or(false);
        let tag = match (co_reach, crate::ssim::nonlinear_impl_header(&spec.world.items.join("\n"))) {
            (true, true) => "+co-reach+nonlinear",
            (true, false) => "+co-reach",
            (false, true) => "+nonlinear",
            (false, false) => "",
        };
        // 1. fresh full enumeration
        let db = mk_db(&l, &spec.db);
        let mut s0 = make_slots(&spec.slots);
        let (e, completed) = match enumerate(&mut s0[0], &db, &g, 0, cap, spec.budget, r, &mut rec, &cfg, &gt) {
            Some(x) => x,
            None => {
                r.bump("excluded.fresh_enumeration_did_not_answer", 1);
                return;
            }
        };
        let n = e.len();
        r.bump("c03.callbacks_in_fresh_enumeration", n as u64);
        if completed {
            r.bump("c03.enumerations_completed", 1);
        } else {
            r.bump("c03.enumerations_capped", 1);
        }
        let floundered = e.iter().filter(|(a, _)| matches!(a, MultiAns::Floundered)).count();
        let ambiguous = e.iter().filter(|(a, _)| matches!(a, MultiAns::Ambiguous(_))).count();
        // 2. callback-log checks
        if floundered > 1 {
            r.violate("floundered-repeats", format!("`{}`: the consumer was called {} times with Floundered (more = true each time): a floundered goal is streamed without end", gt, floundered), Some("slg:floundered-repeats"));
        }
        for i in 0..n {
            for j in i + 1..n {
                if let (MultiAns::Definite(a), MultiAns::Definite(b)) = (&e[i].0, &e[j].0) {
                    if a == b {
                        r.violate("duplicate-answer", format!("`{}`: answer #{} and #{} are both `{}`", gt, i, j, fmt_multi(&e[i].0)), Some(&format!("slg:duplicate-answer{}", tag)));
                    }
                }
            }
        }
        for (i, (_, more)) in e.iter().enumerate() {
            let last = i + 1 == n;
            if !*more && !last {
                r.violate("more-flag-false-but-answers-follow", format!("`{}`: callback #{} of {} had more = false", gt, i, n), Some("slg:flag"));
            }
            if completed && last && *more && floundered == 0 {
                r.violate("more-flag-true-at-end", format!("`{}`: the enumeration completed after callback #{} whose flag said more = true", gt, i), Some("slg:flag"));
            }
            if completed && !last && !*more {
                r.violate("more-flag-false-but-answers-follow", format!("`{}`: callback #{} of {} had more = false", gt, i, n), Some("slg:flag"));
            }
        }
        // 3. stop-and-resume on the same solver, for every stop position
        let finite = completed && floundered == 0;
        let mut fresh_solve: Option<Out> = None;
        for j in 1..=n.min(cap) {
            let dbj = mk_db(&l, &spec.db);
            let mut sj = make_slots(&spec.slots);
            let first = match enumerate(&mut sj[0], &dbj, &g, j, cap, spec.budget, r, &mut rec, &cfg, &gt) {
                Some(x) => x.0,
                None => continue,
            };
            if j < n {
                r.nontrivial = r.nontrivial || n >= 2;
                r.bump("fault.consumer_stopped_early", 1);
            }
            r.bump("c03.stop_resume_histories", 1);
            let k = first.len().min(n);
            if first[..k] != e[..k] || first.len() > n {
                r.violate("prefix-differs", format!("`{}`: enumeration stopped after {} callbacks delivered {:?}, the fresh enumeration starts with {:?}", gt, j, first.iter().map(|a| fmt_multi(&a.0)).collect::<Vec<_>>(), e[..k].iter().map(|a| fmt_multi(&a.0)).collect::<Vec<_>>()), Some(&format!("slg:prefix-differs{}", tag)));
                continue;
            }
            // resume: full enumeration again on the same solver
            if let Some((again, again_completed)) = enumerate(&mut sj[0], &dbj, &g, 0, cap, spec.budget, r, &mut rec, &cfg, &gt) {
                if finite {
                    if again != e || again_completed != completed {
                        r.violate(
                            "resumed-enumeration-differs",
                            format!("`{}`: after stopping at callback {} the same solver enumerates {:?} (completed={}), a fresh solver {:?} (completed={})", gt, j, again.iter().map(|a| format!("{} more={}", fmt_multi(&a.0), a.1)).collect::<Vec<_>>(), again_completed, e.iter().map(|a| format!("{} more={}", fmt_multi(&a.0), a.1)).collect::<Vec<_>>(), completed),
                            Some(&format!("slg:resumed-differs{}", tag)),
                        );
                    }
                } else {
                    r.bump("c03.resume_compared_as_prefix_only", 1);
                }
            }
            // aggregate on the warm solver
            if finite {
                let (warm, st) = run_op(&mut sj[0], &dbj, &g, &OpKind::Solve, None, spec.budget);
                account(r, &warm, &st, &OpKind::Solve);
                if fresh_solve.is_none() {
                    fresh_solve = Some(fresh_answer(&l.p, &cfg, &g, &OpKind::Solve, spec.budget).0);
                }
                let f = fresh_solve.as_ref().unwrap();
                if warm.is_answer() && f.is_answer() && &warm != f {
                    r.violate("aggregate-after-enumeration-differs", format!("`{}`: solve after a partial enumeration answers `{}`, a fresh solver `{}`", gt, fmt_out(&warm), fmt_out(f)), Some(&format!("slg:aggregate-differs{}", tag)));
                }
            }
        }
        // aggregate consistency with the list
        if finite {
            if fresh_solve.is_none() {
                fresh_solve = Some(fresh_answer(&l.p, &cfg, &g, &OpKind::Solve, spec.budget).0);
            }
            if let Some(Out::Ans(s)) = &fresh_solve {
                let definite = e.iter().filter(|(a, _)| matches!(a, MultiAns::Definite(_))).count();
                let unique = s.as_ref().map(|x| x.is_unique()).unwrap_or(false);
                if unique != (definite == 1 && ambiguous == 0) {
                    r.violate("aggregate-inconsistent-with-enumeration", format!("`{}`: solve answers `{}` but the completed enumeration has {} definite and {} ambiguous answers", gt, fmt_sol(s), definite, ambiguous), Some(&format!("slg:aggregate-inconsistent{}", tag)));
                }
                if s.is_none() != (n == 0) {
                    r.violate("aggregate-inconsistent-with-enumeration", format!("`{}`: solve answers `{}` but the completed enumeration has {} answers", gt, fmt_sol(s), n), Some(&format!("slg:aggregate-inconsistent{}", tag)));
                }
            }
        }
        // 5. Ref: soundness of every definite answer, completeness of finite enumerations
        if let Some((prog, goals)) = &frag {
            if let Some(Ok(ast @ Goal::Exists(..))) = goals.get(gi) {
                if let Some(info) = eval_exists(prog, ast, 2, 6_000, 900) {
                    let (_, occ) = first_occurrence_order(ast).unwrap();
                    let pos: Vec<usize> = occ.iter().map(|v| info.vars.iter().position(|x| x == v).unwrap()).collect();
                    let mut sigmas: Vec<Vec<wgen::Ty>> = vec![];
                    let mut convertible = true;
                    for (a, _) in &e {
                        if let MultiAns::Definite(c) = a {
                            let mut sigma = vec![];
                            for x in c.value.subst.iter(ChalkIr) {
                                match x.ty(ChalkIr).and_then(|t| conv_ty(t, &l.p)) {
                                    Some(t) => sigma.push(t),
                                    None => convertible = false,
                                }
                            }
                            if sigma.len() != occ.len() {
                                convertible = false;
                            }
                            sigmas.push(sigma);
                        }
                    }
                    if convertible {
                        let matches = |sigma: &Vec<wgen::Ty>, asg: &Vec<wgen::Ty>| -> bool {
                            let mut m = BTreeMap::new();
                            sigma.iter().zip(pos.iter()).all(|(pat, &vi)| match_ty(pat, &asg[vi], &mut m))
                        };
                        r.bump("c03.answers_judged_by_ref", sigmas.len() as u64);
                        for sigma in &sigmas {
                            if let Some(bad) = info.refuted.iter().find(|rj| matches(sigma, rj)) {
                                r.violate(
                                    "unsound-answer",
                                    format!("`{}`: yielded answer [{}] := [{}] but the instance [{}] := [{}] is false", gt, occ.join(", "), sigma.iter().map(|t| t.show()).collect::<Vec<_>>().join(", "), info.vars.join(", "), bad.iter().map(|t| t.show()).collect::<Vec<_>>().join(", ")),
                                    Some(&format!("slg:unsound-answer{}", tag)),
                                );
                                break;
                            }
                        }
                        if finite && ambiguous == 0 {
                            r.bump("c03.completeness_judged", 1);
                            if let Some(miss) = info.sols.iter().find(|s| !sigmas.iter().any(|sg| matches(sg, s))) {
                                r.violate(
                                    "missing-answer",
                                    format!("`{}`: the enumeration completed with {} answers but [{}] := [{}] is a solution none of them covers", gt, sigmas.len(), info.vars.join(", "), miss.iter().map(|t| t.show()).collect::<Vec<_>>().join(", ")),
                                    Some(&format!("slg:missing-answer{}", tag)),
                                );
                            }
                        }
                    }
                }
            }
        }
        r.shape = rec.shape.0;
        r.log = rec.log.0;
        if r.idx % 499 == 0 || !r.violations.is_empty() {
            r.sample = Some(serde_json::json!({"world": spec.world.source, "goal": gt, "fresh_enumeration": e.iter().map(|a| format!("{} more={}", fmt_multi(&a.0), a.1)).collect::<Vec<_>>(), "completed": completed}));
        }
    });
}
