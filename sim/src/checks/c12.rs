//! C12 — a panic in a database callback leaves the solver usable.
//! Fault enumeration over crash points: the n-th database call of the solve unwinds.

use super::*;

pub fn meta() -> CheckMeta {
    CheckMeta {
        id: "C12",
        level: "fault_enumeration",
        rule: "one run = one (world, goal, solver slot set, follow-up operations) tuple; a clean solve learns N = number of database calls (every RustIrDatabase/UnificationDatabase callback incl. interner()); then for EVERY crash point n <= min(N, cap) (strided above cap) a brand-new solver runs the solve with the n-th database call unwinding (typed payload), optionally a second injected panic during a follow-up, and then the follow-up operations on the SAME solver instance(s). Oracle: no follow-up panics, every unfaulted follow-up answer == fresh solver. Non-trivial = the injected panic actually fired; distinct = distinct event-log shape hash (includes the callback that unwound).",
        assumptions: vec![
            "C01 fragment worlds only (W-gen + the W-corpus entries the fragment parser accepts), as the property states",
            "goals whose clean solve exceeds the step budget or panics are excluded",
            "the panic payload is a dedicated type; a genuine chalk panic is never mistaken for an injected one",
            "exhaustive over crash points only up to `cap` per sampled (world, goal, solver); beyond that strided",
        ],
        real: "chalk-parse, lowering, chalk-solve (clause generation runs through the seam), chalk-engine (Drop for SolveState), chalk-recursive (stack, search graph, cache)",
        stubs: "SimDb (delegating, unwinds at the chosen call), client",
    }
}

pub fn n_runs(tier: &str) -> u64 {
    if tier == "quick" { 4_000 } else { 40_000 }
}

pub fn gen(tier: &str, seed: u64, idx: u64, base: u64) -> Spec {
    let mut rng = Rng::new(seed);
    let world = pick_world(&mut rng, base, idx, 50, wgen::Profile::Fragment);
    let goals = usable_goals(&world, &["slg", "rec"]);
    let mut ops = vec![];
    let which = rng.below(10);
    let slots = if which < 4 {
        vec![SlotCfg::slg()]
    } else if which < 7 {
        vec![SlotCfg::rec()]
    } else if which < 8 {
        vec![SlotCfg::rec_nocache()]
    } else {
        vec![
            SlotCfg::Rec { max_size: 30, overflow_depth: 100, caching: true, shared: Some(0) },
            SlotCfg::Rec { max_size: 30, overflow_depth: 100, caching: true, shared: Some(0) },
        ]
    };
    if !goals.is_empty() {
        let g = *rng.pick(&goals);
        let k0 = if slots[0].is_slg() && rng.coin(15) { OpKind::Multi { stop_after: 0, cap: 32 } } else if rng.coin(15) { OpKind::Limited(Sched::Never) } else { OpKind::Solve };
        ops.push(Op { kind: k0, slot: 0, goal: g, fault: None });
        // fault sequence: sometimes the retry is hit as well
        let second = if rng.coin(30) { Some(rng.range(1, 80) as u64) } else { None };
        // usually the crashed goal is retried first — but a retry of the very same goal can repair what the crash left
        // behind, so 40 % of the histories go on with OTHER goals first (a dependent goal meeting the leftovers)
        let retry_first = goals.len() < 2 || rng.coin(60);
        if retry_first {
            ops.push(Op { kind: OpKind::Solve, slot: 0, goal: g, fault: second });
            if second.is_some() {
                ops.push(Op { kind: OpKind::Solve, slot: 0, goal: g, fault: None });
            }
        } else {
            let others: Vec<usize> = goals.iter().cloned().filter(|&x| x != g).collect();
            for _ in 0..rng.range(1, 3) {
                ops.push(Op { kind: OpKind::Solve, slot: 0, goal: *rng.pick(&others), fault: None });
            }
        }
        if goals.len() <= 14 && rng.coin(if retry_first { 50 } else { 75 }) {
            let mut all = goals.clone();
            rng.shuffle(&mut all);
            for goal in all {
                ops.push(Op { kind: OpKind::Solve, slot: rng.below(slots.len()), goal, fault: None });
            }
        }
        for _ in 0..rng.range(0, 4) {
            let goal = if rng.coin(40) { g } else { *rng.pick(&goals) };
            let k = rng.below(10);
            let kind = if k < 7 { OpKind::Solve } else if k < 8 { OpKind::HasUnique } else { OpKind::Limited(Sched::Never) };
            ops.push(Op { kind, slot: rng.below(slots.len()), goal, fault: None });
        }
    }
    let cap = if tier == "quick" { 48 } else { 800 };
    let db = DbCfg { perm_seed: None, superset: false, data_only_faults: rng.coin(25) };
    Spec { check: "C12".into(), world, slots, ops, db, budget: 400_000, points: None, scheds: None, cap, params: Default::default() }
}

fn strided(n: u64, cap: u64) -> Vec<u64> {
    if n <= cap {
        (1..=n).collect()
    } else {
        let mut v: Vec<u64> = (0..cap).map(|i| 1 + i * (n - 1) / (cap - 1).max(1)).collect();
        v.dedup();
        v
    }
}

pub fn exec(spec: &Spec, r: &mut RunResult) {
    if spec.ops.is_empty() {
        r.bump("excluded.no_usable_goal", 1);
        return;
    }
    let mut l = match lower(&spec.world) {
        Ok(l) => l,
        Err(_) => {
            r.outcome = "invalid-world".into();
            r.bump("excluded.invalid_world", 1);
            return;
        }
    };
    let p = l.p.clone();
    with_program(&p, || {
        lower_goals(&mut l, &spec.world);
        let prim = &spec.ops[0];
        let g0 = match l.goals.get(prim.goal).and_then(|g| g.as_ref()) {
            Some(g) => g.clone(),
            None => {
                r.bump("excluded.goal_unlowerable", 1);
                return;
            }
        };
        let cfg0 = spec.slots[prim.slot].clone();
        let mut memo = FreshMemo::new();
        // clean run on a database configured like the faulty ones (same fault-point clock)
        let (clean, clean_st) = {
            let db = mk_db(&l, &spec.db);
            let mut s = fresh_solver(&cfg0);
            run_op_on(&mut *s, &db, &db, &g0, &prim.kind, None, spec.budget)
        };
        if !clean.is_answer() {
            r.bump("excluded.fresh_not_an_answer", 1);
            return;
        }
        let n = clean_st.fault_points;
        r.bump("c12.db_calls_in_clean_solve", n);
        let points: Vec<u64> = match &spec.points {
            Some(p) => p.clone(),
            None => strided(n, spec.cap.max(1)),
        };
        if n <= spec.cap && spec.points.is_none() {
            r.bump("c12.goals_with_all_points_enumerated", 1);
        }
        let mut rec = Recorder::new(false);
        for &pt in &points {
            let db = mk_db(&l, &spec.db);
            let mut slots = make_slots(&spec.slots);
            let (o1, st) = run_op(&mut slots[prim.slot], &db, &g0, &prim.kind, Some(pt), spec.budget);
            account(r, &o1, &st, &prim.kind);
            rec.op(&cfg0, &prim.kind, Some(pt), &o1, &st, &spec.world.goals[prim.goal]);
            r.bump("c12.crash_points", 1);
            match &o1 {
                Out::Faulted(..) => {
                    r.nontrivial = true;
                }
                Out::Budget => continue,
                _ => {
                    // the point lies beyond this solve's calls (cannot happen for n <= N on a deterministic solver)
                    r.bump("c12.fault_did_not_fire", 1);
                }
            }
            let mut bad: Vec<(String, String)> = vec![];
            for (oi, op) in spec.ops.iter().enumerate().skip(1) {
                let g = match l.goals.get(op.goal).and_then(|g| g.as_ref()) {
                    Some(g) => g.clone(),
                    None => continue,
                };
                let cfg = spec.slots[op.slot].clone();
                let fresh = memo.get(&l, &cfg, op.goal, &op.kind, spec.budget).0.clone();
                if !fresh.is_answer() {
                    r.bump("excluded.fresh_not_an_answer", 1);
                    continue;
                }
                let (out, st2) = run_op(&mut slots[op.slot], &db, &g, &op.kind, op.fault, spec.budget);
                account(r, &out, &st2, &op.kind);
                rec.op(&cfg, &op.kind, op.fault, &out, &st2, &spec.world.goals[op.goal]);
                match &out {
                    Out::Faulted(..) => {
                        r.bump("c12.second_faults_fired", 1);
                        continue;
                    }
                    Out::Budget => break,
                    _ => {}
                }
                r.bump("c12.later_ops_compared", 1);
                if out != fresh {
                    // control: the same history WITHOUT any injected panic (history dependence is C10's subject)
                    // two crash-free controls: with the crashed operation run to completion, and without it at all (a
                    // solver that discards its in-progress state on unwinding is then in the state of the shorter history)
                    let mut run_control = |skip_first: bool| {
                        let dbc = mk_db(&l, &spec.db);
                        let mut sc = make_slots(&spec.slots);
                        let mut last = None;
                        for (ci, cop) in spec.ops.iter().enumerate().take(oi + 1) {
                            if skip_first && ci == 0 {
                                continue;
                            }
                            let cg = match l.goals.get(cop.goal).and_then(|g| g.as_ref()) {
                                Some(g) => g.clone(),
                                None => continue,
                            };
                            let (o, _) = run_op(&mut sc[cop.slot], &dbc, &cg, &cop.kind, None, spec.budget);
                            if ci == oi {
                                last = Some(o);
                            }
                        }
                        last
                    };
                    let control = run_control(false);
                    let control2 = if control.as_ref() == Some(&out) { None } else { run_control(true) };
                    if control.as_ref() == Some(&out) || control2.as_ref() == Some(&out) {
                        r.bump("c12.deviation_also_without_fault_attributed_to_history", 1);
                        break;
                    }
                }
                if out != fresh {
                    let class = if matches!(out, Out::Panic(_)) { "later-call-panics" } else { "later-differs-from-fresh" };
                    bad.push((
                        class.into(),
                        format!(
                            "crash point {} of {} ({}): follow-up #{} {} {:?} on `{}`: `{}` but a fresh solver answers `{}`",
                            pt,
                            n,
                            if let Out::Faulted(_, m) = &o1 { m } else { "-" },
                            oi,
                            cfg.name(),
                            op.kind,
                            spec.world.goals[op.goal],
                            fmt_out(&out),
                            fmt_out(&fresh)
                        ),
                    ));
                    break;
                }
            }
            for (class, detail) in bad {
                if !r.violations.iter().any(|v| v.class == class) {
                    r.violations.push(crate::run::Violation { class: class.clone(), detail, sig: Some(format!("{}:{}{}", cfg0.kind(), class, static_tags(&spec.world, prim.goal))) });
                    if r.pin.is_none() {
                        r.pin = Some(serde_json::json!({ "points": [pt] }));
                    }
                }
                r.bump(&format!("c12.bad.{}", class), 1);
            }
        }
        r.bump("sim.fresh_solves", memo.computed);
        r.shape = rec.shape.0;
        r.log = rec.log.0;
        if r.idx % 61 == 0 {
            r.sample = Some(serde_json::json!({"world": spec.world.source, "program": spec.world.program_text().chars().take(500).collect::<String>(), "goal": spec.world.goals[prim.goal], "solver": cfg0.name(), "primary_op": format!("{:?}", prim.kind), "db_calls_clean": n, "crash_points_run": points.len(), "data_only_fault_points": spec.db.data_only_faults, "followups": spec.ops.iter().skip(1).map(|o| format!("{:?} slot{} `{}`{}", o.kind, o.slot, spec.world.goals[o.goal], o.fault.map(|f| format!(" second-fault@{}", f)).unwrap_or_default())).collect::<Vec<_>>()}));
        }
    });
}
