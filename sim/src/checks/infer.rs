//! infer-sim: C14 (unification is sound and most general) and C15 (failed unification leaves the
//! inference state untouched). Operation histories on the real `InferenceTable` against a reference
//! unifier (union-find free: substitution map + Robinson unification with occurs check, per-variable
//! universes with promotion, integer/float kinds, copy-on-snapshot).

use crate::rng::{Rng, RollHash};
use crate::run::{CheckMeta, RunResult};
use chalk_integration::interner::{ChalkIr, RawId};
use chalk_ir::*;
use chalk_solve::infer::InferenceTable;
use serde::{Deserialize, Serialize};
use serde_json::Value;

#[derive(Debug)]
struct Db;
/// constructors 0,1: ADTs F/1 G/2; 2,3: ADTs K/0 L/0
const ARITY: [usize; 4] = [1, 2, 0, 0];
impl UnificationDatabase<ChalkIr> for Db {
    fn fn_def_variance(&self, _: FnDefId<ChalkIr>) -> Variances<ChalkIr> {
        Variances::empty(ChalkIr)
    }
    fn adt_variance(&self, id: AdtId<ChalkIr>) -> Variances<ChalkIr> {
        // F: covariant, G: (invariant, contravariant) — irrelevant for lifetime-free types, which is the point
        let v = match id.0.index {
            0 => vec![Variance::Covariant],
            1 => vec![Variance::Invariant, Variance::Contravariant],
            _ => vec![],
        };
        Variances::from_iter(ChalkIr, v)
    }
}

#[derive(Serialize, Deserialize, Clone, Debug, PartialEq, Eq)]
pub enum T {
    Var(usize),
    Ph(usize, usize),
    App(usize, Vec<T>),
    Tuple(Vec<T>),
    Slice(Box<T>),
    RawPtr(bool, Box<T>),
    /// scalar: 0 i32, 1 u8, 2 f32, 3 f64, 4 bool
    Scalar(u8),
    Str,
    /// canonical (bound) variable — observation only
    Canon(usize),
}

#[derive(Serialize, Deserialize, Clone, Debug, PartialEq)]
pub enum IOp {
    NewUniverse,
    /// kind: 0 general, 1 integer, 2 float
    NewVar { universe: usize, kind: u8 },
    /// variance: 0 invariant (applied to the table), 1 covariant, 2 contravariant (observed on a clone only)
    Relate { a: T, b: T, variance: u8 },
    Snapshot,
    Rollback,
    Commit,
}

#[derive(Serialize, Deserialize, Clone, Debug)]
pub struct ISpec {
    pub check: String,
    pub ops: Vec<IOp>,
}

// ------------------------------------------------------------------ reference model

#[derive(Clone, Debug)]
struct Model {
    bind: Vec<Option<T>>,
    uni: Vec<usize>,
    kind: Vec<u8>,
    max_u: usize,
}

fn scalar_is_int(s: u8) -> bool {
    s <= 1
}
fn scalar_is_float(s: u8) -> bool {
    s == 2 || s == 3
}

impl Model {
    fn walk(&self, t: &T) -> T {
        let mut t = t.clone();
        loop {
            match &t {
                T::Var(v) => match &self.bind[*v] {
                    Some(b) => t = b.clone(),
                    None => return t,
                },
                _ => return t,
            }
        }
    }
    fn children(t: &T) -> Vec<T> {
        match t {
            T::App(_, a) | T::Tuple(a) => a.clone(),
            T::Slice(x) | T::RawPtr(_, x) => vec![(**x).clone()],
            _ => vec![],
        }
    }
    /// occurs check + universe check + promotion of inner variables to universe `u`
    fn check_bind(&mut self, v: usize, u: usize, t: &T) -> bool {
        match self.walk(t) {
            T::Var(w) => {
                if w == v {
                    return false;
                }
                if self.uni[w] > u {
                    self.uni[w] = u;
                }
                true
            }
            T::Ph(pu, _) => pu <= u,
            other => Self::children(&other).iter().all(|x| self.check_bind(v, u, x)),
        }
    }
    fn unify(&mut self, a: &T, b: &T) -> bool {
        let (a, b) = (self.walk(a), self.walk(b));
        match (&a, &b) {
            (T::Var(x), T::Var(y)) => {
                if x == y {
                    return true;
                }
                let (kx, ky) = (self.kind[*x], self.kind[*y]);
                // integer vs float variables never unify
                if kx != 0 && ky != 0 && kx != ky {
                    return false;
                }
                let u = self.uni[*x].min(self.uni[*y]);
                self.uni[*x] = u;
                self.uni[*y] = u;
                // the general variable (if any) points at the specific one
                if kx == 0 && ky != 0 {
                    self.bind[*x] = Some(T::Var(*y));
                } else {
                    self.bind[*y] = Some(T::Var(*x));
                }
                true
            }
            (T::Var(x), t) | (t, T::Var(x)) => {
                let k = self.kind[*x];
                if k == 1 && !matches!(t, T::Scalar(s) if scalar_is_int(*s)) {
                    return false;
                }
                if k == 2 && !matches!(t, T::Scalar(s) if scalar_is_float(*s)) {
                    return false;
                }
                let u = self.uni[*x];
                if !self.check_bind(*x, u, t) {
                    return false;
                }
                self.bind[*x] = Some(t.clone());
                true
            }
            (T::Ph(a1, a2), T::Ph(b1, b2)) => a1 == b1 && a2 == b2,
            (T::App(c1, a1), T::App(c2, a2)) => c1 == c2 && a1.len() == a2.len() && a1.iter().zip(a2.iter()).all(|(x, y)| self.unify(x, y)),
            (T::Tuple(a1), T::Tuple(a2)) => a1.len() == a2.len() && a1.iter().zip(a2.iter()).all(|(x, y)| self.unify(x, y)),
            (T::Slice(x), T::Slice(y)) => self.unify(x, y),
            (T::RawPtr(m1, x), T::RawPtr(m2, y)) => m1 == m2 && self.unify(x, y),
            (T::Scalar(x), T::Scalar(y)) => x == y,
            (T::Str, T::Str) => true,
            _ => false,
        }
    }
    /// canonical form of all variables: values with unknowns numbered by first occurrence, plus (kind, universe) per unknown
    fn canon(&self) -> (Vec<T>, Vec<(u8, usize)>) {
        fn go(m: &Model, t: &T, order: &mut Vec<usize>) -> T {
            match m.walk(t) {
                T::Var(v) => {
                    let i = order.iter().position(|x| *x == v).unwrap_or_else(|| {
                        order.push(v);
                        order.len() - 1
                    });
                    T::Canon(i)
                }
                T::App(c, a) => T::App(c, a.iter().map(|x| go(m, x, order)).collect()),
                T::Tuple(a) => T::Tuple(a.iter().map(|x| go(m, x, order)).collect()),
                T::Slice(x) => T::Slice(Box::new(go(m, &x, order))),
                T::RawPtr(mu, x) => T::RawPtr(mu, Box::new(go(m, &x, order))),
                o => o,
            }
        }
        let mut order = vec![];
        let vals = (0..self.bind.len()).map(|v| go(self, &T::Var(v), &mut order)).collect();
        // the universe of an integer/float variable is immaterial (it can only ever be bound to a scalar)
        let kinds = order.iter().map(|v| (self.kind[*v], if self.kind[*v] == 0 { self.uni[*v] } else { 0 })).collect();
        (vals, kinds)
    }
}

// ------------------------------------------------------------------ real side

fn scalar_ty(s: u8) -> Ty<ChalkIr> {
    let sc = match s {
        0 => Scalar::Int(IntTy::I32),
        1 => Scalar::Uint(UintTy::U8),
        2 => Scalar::Float(FloatTy::F32),
        3 => Scalar::Float(FloatTy::F64),
        _ => Scalar::Bool,
    };
    TyKind::Scalar(sc).intern(ChalkIr)
}

fn to_ty(t: &T, vars: &[Ty<ChalkIr>]) -> Ty<ChalkIr> {
    match t {
        T::Var(v) => vars[*v].clone(),
        T::Ph(u, i) => PlaceholderIndex { ui: UniverseIndex { counter: *u }, idx: *i }.to_ty(ChalkIr),
        T::App(c, a) => TyKind::Adt(AdtId(RawId { index: *c as u32 }), Substitution::from_iter(ChalkIr, a.iter().map(|x| to_ty(x, vars)))).intern(ChalkIr),
        T::Tuple(a) => TyKind::Tuple(a.len(), Substitution::from_iter(ChalkIr, a.iter().map(|x| to_ty(x, vars)))).intern(ChalkIr),
        T::Slice(x) => TyKind::Slice(to_ty(x, vars)).intern(ChalkIr),
        T::RawPtr(m, x) => TyKind::Raw(if *m { Mutability::Mut } else { Mutability::Not }, to_ty(x, vars)).intern(ChalkIr),
        T::Scalar(s) => scalar_ty(*s),
        T::Str => TyKind::Str.intern(ChalkIr),
        T::Canon(_) => unreachable!(),
    }
}

fn from_ty(t: &Ty<ChalkIr>) -> Result<T, String> {
    Ok(match t.kind(ChalkIr) {
        TyKind::Adt(id, s) => T::App(id.0.index as usize, s.iter(ChalkIr).map(|a| from_ty(a.assert_ty_ref(ChalkIr))).collect::<Result<_, _>>()?),
        TyKind::Tuple(_, s) => T::Tuple(s.iter(ChalkIr).map(|a| from_ty(a.assert_ty_ref(ChalkIr))).collect::<Result<_, _>>()?),
        TyKind::Slice(x) => T::Slice(Box::new(from_ty(x)?)),
        TyKind::Raw(m, x) => T::RawPtr(*m == Mutability::Mut, Box::new(from_ty(x)?)),
        TyKind::Placeholder(p) => T::Ph(p.ui.counter, p.idx),
        TyKind::BoundVar(b) => T::Canon(b.index),
        TyKind::Str => T::Str,
        TyKind::Scalar(Scalar::Int(IntTy::I32)) => T::Scalar(0),
        TyKind::Scalar(Scalar::Uint(UintTy::U8)) => T::Scalar(1),
        TyKind::Scalar(Scalar::Float(FloatTy::F32)) => T::Scalar(2),
        TyKind::Scalar(Scalar::Float(FloatTy::F64)) => T::Scalar(3),
        TyKind::Scalar(Scalar::Bool) => T::Scalar(4),
        other => return Err(format!("unexpected type in canonical form: {:?}", other)),
    })
}

fn real_canon(table: &mut InferenceTable<ChalkIr>, vars: &[Ty<ChalkIr>]) -> Result<(Vec<T>, Vec<(u8, usize)>), String> {
    let s = Substitution::from_iter(ChalkIr, vars.iter().cloned());
    let c = table.canonicalize(ChalkIr, s).quantified;
    let vals = c.value.iter(ChalkIr).map(|a| from_ty(a.assert_ty_ref(ChalkIr))).collect::<Result<_, _>>()?;
    let kinds = c
        .binders
        .iter(ChalkIr)
        .map(|b| {
            let k = match &b.kind {
                VariableKind::Ty(TyVariableKind::General) => 0,
                VariableKind::Ty(TyVariableKind::Integer) => 1,
                VariableKind::Ty(TyVariableKind::Float) => 2,
                _ => 9,
            };
            (k, if k == 0 { b.skip_kind().counter } else { 0 })
        })
        .collect();
    Ok((vals, kinds))
}

// ------------------------------------------------------------------ generation (model-driven, no chalk)

fn gen_term(r: &mut Rng, m: &Model, depth: usize) -> T {
    let nv = m.bind.len();
    if nv > 0 && r.coin(35) {
        return T::Var(r.below(nv));
    }
    if m.max_u > 0 && r.coin(13) {
        return T::Ph(1 + r.below(m.max_u), r.below(2));
    }
    if r.coin(12) {
        return T::Scalar(r.below(5) as u8);
    }
    if depth == 0 {
        return match r.below(4) {
            0 => T::App(2, vec![]),
            1 => T::App(3, vec![]),
            2 => T::Str,
            _ => T::Scalar(r.below(5) as u8),
        };
    }
    match r.below(8) {
        0 | 1 | 2 | 3 => {
            let c = r.below(4);
            T::App(c, (0..ARITY[c]).map(|_| gen_term(r, m, depth - 1)).collect())
        }
        4 => T::Tuple((0..r.range(0, 3)).map(|_| gen_term(r, m, depth - 1)).collect()),
        5 => T::Slice(Box::new(gen_term(r, m, depth - 1))),
        6 => T::RawPtr(r.coin(50), Box::new(gen_term(r, m, depth - 1))),
        _ => T::App(0, vec![gen_term(r, m, depth - 1)]),
    }
}

/// mutate a term: mostly keep the structure (so that roughly half of the relates succeed), plant variables,
/// occasional late clashes
fn mutate(r: &mut Rng, m: &Model, t: &T) -> T {
    if r.coin(10) {
        return gen_term(r, m, 1);
    }
    if r.coin(22) && !m.bind.is_empty() {
        return T::Var(r.below(m.bind.len()));
    }
    match t {
        T::App(c, a) => T::App(*c, a.iter().map(|x| mutate(r, m, x)).collect()),
        T::Tuple(a) => T::Tuple(a.iter().map(|x| mutate(r, m, x)).collect()),
        T::Slice(x) => T::Slice(Box::new(mutate(r, m, x))),
        T::RawPtr(mu, x) => T::RawPtr(if r.coin(8) { !*mu } else { *mu }, Box::new(mutate(r, m, x))),
        o => o.clone(),
    }
}

pub fn gen(check: &str, seed: u64) -> ISpec {
    let mut r = Rng::new(seed);
    let mut m = Model { bind: vec![], uni: vec![], kind: vec![], max_u: 0 };
    let mut snaps: Vec<Model> = vec![];
    let mut ops = vec![];
    let n = r.range(5, 60);
    for _ in 0..n {
        let k = r.below(100);
        if k < 7 && m.max_u < 3 {
            m.max_u += 1;
            ops.push(IOp::NewUniverse);
        } else if k < 30 && m.bind.len() < 10 {
            let u = r.below(m.max_u + 1);
            let kind = match r.below(10) {
                0 | 1 => 1,
                2 => 2,
                _ => 0,
            };
            m.bind.push(None);
            m.uni.push(u);
            m.kind.push(kind);
            ops.push(IOp::NewVar { universe: u, kind });
        } else if k < 38 && snaps.len() < 4 {
            snaps.push(m.clone());
            ops.push(IOp::Snapshot);
        } else if k < 44 && !snaps.is_empty() {
            m = snaps.pop().unwrap();
            ops.push(IOp::Rollback);
        } else if k < 48 && !snaps.is_empty() {
            snaps.pop();
            ops.push(IOp::Commit);
        } else if !m.bind.is_empty() {
            let a = gen_term(&mut r, &m, 2);
            let b = mutate(&mut r, &m, &a);
            let (a, b) = if r.coin(50) { (a, b) } else { (b, a) };
            let variance = match r.below(10) {
                0 => 1,
                1 => 2,
                _ => 0,
            };
            if variance == 0 {
                let mut m2 = m.clone();
                if m2.unify(&a, &b) {
                    m = m2;
                }
            }
            ops.push(IOp::Relate { a, b, variance });
        }
    }
    ISpec { check: check.to_string(), ops }
}

// ------------------------------------------------------------------ execution + oracles

pub fn meta(check: &str) -> CheckMeta {
    if check == "C14" {
        CheckMeta {
            id: "C14",
            level: "exploration",
            rule: "one run = one PRNG-drawn history of 5-60 operations (new_universe, new_variable in any existing universe with kind general/integer/float, relate(a, b), snapshot, rollback_to, commit) on the real InferenceTable and on a reference unifier (Robinson unification with occurs check, per-variable universes with promotion, placeholder visibility, integer/float kinds, copy-on-snapshot). Terms over ADTs of arity 0-2 with declared variances, tuples, slices, raw pointers, scalars, str, placeholders of universes 1-3 and all variables created so far, generated from the model state so that about half of the relates succeed. After EVERY relate: success must agree with the model (existence of a unifier respecting universes); on success the canonical form of ALL variables (bindings up to renaming, kinds, universes) must equal the model's, which is both 'makes them equal' and 'as general as any'. Covariant/contravariant relates of these lifetime-free terms are executed on a clone and must succeed exactly when the invariant relate does. Non-trivial = the history contains a successful relate after an earlier successful relate (state matters); distinct = distinct event-log shape hash.",
            assumptions: vec!["the reference unifier (sim/src/checks/infer.rs) is the specification", "no lifetimes, aliases, binders or constants (the property's 'up to the returned alias/lifetime obligations' part is not exercised)", "observation through the public API: canonicalize of the tuple of all variables"],
            real: "chalk-solve infer (InferenceTable, Unifier: relate, occurs check, universe promotion, var kinds), ena unification table, canonicalizer (as observation function)",
            stubs: "UnificationDatabase stub (declared variances only), reference unifier, client",
        }
    } else {
        CheckMeta {
            id: "C15",
            level: "exploration",
            rule: "same histories as C14; the failing relate is the fault and rollback the recovery. For EVERY relate that fails on the real table: the canonical form of all variables, the next universe index and the number of variables (both observed on clones) must be identical before and after; for EVERY relate: relate(a, b) and relate(b, a) on clones must agree on success. Failures happen inside open snapshots and after partial bindings (the generator plants clashes late in multi-argument terms). Non-trivial = the history contains a failed relate whose earlier arguments had already bound variables (a multi-argument term with a variable before the clash) or a failed relate inside an open snapshot; distinct = distinct event-log shape hash.",
            assumptions: vec!["observation through the public API: canonicalize of the tuple of all variables, new_universe()/new_variable() indices on clones", "no lifetimes, aliases, binders or constants"],
            real: "chalk-solve infer (relate's snapshot/rollback, InferenceTable::snapshot/rollback_to/commit), ena snapshots",
            stubs: "UnificationDatabase stub, client",
        }
    }
}

pub fn n_runs(tier: &str) -> u64 {
    if tier == "quick" { 400_000 } else { 6_000_000 }
}

fn clone_probe(table: &InferenceTable<ChalkIr>) -> (usize, String) {
    let mut c = table.clone();
    let next_u = c.new_universe().counter;
    let next_v = format!("{:?}", c.new_variable(UniverseIndex::ROOT));
    (next_u, next_v)
}

pub fn exec(check: &str, spec_v: &Value, r: &mut RunResult) {
    let spec: ISpec = match serde_json::from_value(spec_v.clone()) {
        Ok(s) => s,
        Err(e) => {
            r.outcome = format!("harness-panic: bad spec: {}", e);
            return;
        }
    };
    let c14 = check == "C14";
    let mut table: InferenceTable<ChalkIr> = InferenceTable::new();
    let mut m = Model { bind: vec![], uni: vec![], kind: vec![], max_u: 0 };
    let mut vars: Vec<Ty<ChalkIr>> = vec![];
    let mut snaps: Vec<(chalk_solve::infer::InferenceSnapshot<ChalkIr>, Model, usize)> = vec![];
    let env = Environment::new(ChalkIr);
    let mut shape = RollHash::new();
    let mut log = RollHash::new();
    let mut successes = 0u64;
    for (step, op) in spec.ops.iter().enumerate() {
        match op {
            IOp::NewUniverse => {
                let u = table.new_universe();
                m.max_u += 1;
                shape.add(1);
                if u.counter != m.max_u {
                    r.violate("universe-counter-differs", format!("step {}: new_universe() returned {} but {} universes were created", step, u.counter, m.max_u), None);
                    break;
                }
            }
            IOp::NewVar { universe, kind } => {
                if *universe > m.max_u {
                    continue; // stale after minimisation
                }
                let v = table.new_variable(UniverseIndex { counter: *universe });
                let k = match kind {
                    1 => TyVariableKind::Integer,
                    2 => TyVariableKind::Float,
                    _ => TyVariableKind::General,
                };
                vars.push(v.to_ty_with_kind(ChalkIr, k));
                m.bind.push(None);
                m.uni.push(*universe);
                m.kind.push(*kind);
                shape.add(2 + *kind as u64);
            }
            IOp::Snapshot => {
                snaps.push((table.snapshot(), m.clone(), vars.len()));
                shape.add(7);
                r.bump("op.snapshot", 1);
            }
            IOp::Rollback => {
                if let Some((s, m0, nv)) = snaps.pop() {
                    table.rollback_to(s);
                    m = m0;
                    vars.truncate(nv);
                    shape.add(8);
                    r.bump("op.rollback_to", 1);
                    // after a rollback the real table must again agree with the restored model
                    match real_canon(&mut table, &vars) {
                        Ok(rc) => {
                            if rc != m.canon() && c14 {
                                r.violate("state-after-rollback-differs-from-model", format!("step {}: real {:?} model {:?}", step, rc, m.canon()), None);
                                break;
                            }
                        }
                        Err(e) => {
                            r.violate("unexpected-canonical-form", e, None);
                            break;
                        }
                    }
                    if !c14 && clone_probe(&table).0 != m.max_u + 1 {
                        r.violate("rollback-did-not-restore-universes", format!("step {}: next universe on a clone is {} but the snapshot was taken with {} universes", step, clone_probe(&table).0, m.max_u), None);
                        break;
                    }
                }
            }
            IOp::Commit => {
                if let Some((s, _, _)) = snaps.pop() {
                    table.commit(s);
                    shape.add(9);
                    r.bump("op.commit", 1);
                }
            }
            IOp::Relate { a, b, variance } => {
                let ok_vars = |t: &T| -> bool {
                    fn mx(t: &T) -> Option<usize> {
                        match t {
                            T::Var(v) => Some(*v),
                            T::App(_, a) | T::Tuple(a) => a.iter().filter_map(mx).max(),
                            T::Slice(x) | T::RawPtr(_, x) => mx(x),
                            _ => None,
                        }
                    }
                    fn mu(t: &T) -> usize {
                        match t {
                            T::Ph(u, _) => *u,
                            T::App(_, a) | T::Tuple(a) => a.iter().map(mu).max().unwrap_or(0),
                            T::Slice(x) | T::RawPtr(_, x) => mu(x),
                            _ => 0,
                        }
                    }
                    mx(t).map(|v| v < vars.len()).unwrap_or(true) && mu(t) <= m.max_u
                };
                if vars.is_empty() || !ok_vars(a) || !ok_vars(b) {
                    continue; // stale after minimisation
                }
                let (ta, tb) = (to_ty(a, &vars), to_ty(b, &vars));
                let before = match real_canon(&mut table, &vars) {
                    Ok(x) => x,
                    Err(e) => {
                        r.violate("unexpected-canonical-form", e, None);
                        break;
                    }
                };
                let probe_before = clone_probe(&table);
                let inv_on_clone = table.clone().relate(ChalkIr, &Db, &env, Variance::Invariant, &ta, &tb).is_ok();
                let rev_ok = table.clone().relate(ChalkIr, &Db, &env, Variance::Invariant, &tb, &ta).is_ok();
                r.bump("op.relate", 1);
                if *variance != 0 {
                    // covariant / contravariant relation of lifetime-free types: on a clone, must coincide with invariant
                    let v = if *variance == 1 { Variance::Covariant } else { Variance::Contravariant };
                    let sub = table.clone().relate(ChalkIr, &Db, &env, v, &ta, &tb);
                    r.bump("op.relate_variant_on_clone", 1);
                    // variable-variable pairs are deferred as returned subtype obligations: success is then only
                    // "up to the returned obligations" (the property's words) and says nothing about unifiability
                    let (sub_ok, deferred) = match &sub {
                        Ok(res) => (true, !res.goals.is_empty()),
                        Err(_) => (false, false),
                    };
                    shape.add(20 + sub_ok as u64 + 2 * deferred as u64);
                    if deferred {
                        r.bump("relate.variant_with_deferred_subtype_goals", 1);
                        // a failure of the invariant relate with a success here is legitimate; the converse is not
                        if c14 && inv_on_clone && !sub_ok {
                            r.violate("variance-changes-success-on-lifetime-free-types", format!("step {}: invariant relate succeeds but {:?} fails", step, v), None);
                            break;
                        }
                        continue;
                    }
                    if c14 && sub_ok != inv_on_clone {
                        r.violate("variance-changes-success-on-lifetime-free-types", format!("step {}: relate({:?}, {:?}) invariant ok={} but {:?} ok={}", step, a, b, inv_on_clone, v, sub_ok), None);
                        break;
                    }
                    continue;
                }
                let real_ok = table.relate(ChalkIr, &Db, &env, Variance::Invariant, &ta, &tb).is_ok();
                let mut m2 = m.clone();
                let model_ok = m2.unify(a, b);
                if model_ok {
                    m = m2;
                }
                shape.add(10 + real_ok as u64 + 2 * (!snaps.is_empty()) as u64);
                log.add(real_ok as u64);
                if real_ok {
                    r.bump("relate.succeeded", 1);
                    successes += 1;
                    if successes >= 2 && c14 {
                        r.nontrivial = true;
                    }
                } else {
                    r.bump("relate.failed", 1);
                    if !snaps.is_empty() {
                        r.bump("relate.failed_inside_open_snapshot", 1);
                    }
                    // partial-binding shape: a composite whose earlier argument is / contains a variable
                    let multi = matches!(a, T::App(_, x) | T::Tuple(x) if x.len() >= 2) || matches!(b, T::App(_, x) | T::Tuple(x) if x.len() >= 2);
                    if !c14 && (multi || !snaps.is_empty()) {
                        r.nontrivial = true;
                    }
                }
                let after = match real_canon(&mut table, &vars) {
                    Ok(x) => x,
                    Err(e) => {
                        r.violate("unexpected-canonical-form", e, None);
                        break;
                    }
                };
                for t in &after.0 {
                    log.add_str(&format!("{:?}", t));
                }
                if c14 {
                    if real_ok != model_ok {
                        r.violate(
                            if real_ok { "unified-although-no-unifier-exists" } else { "failed-although-a-unifier-exists" },
                            format!("step {}: relate({:?}, {:?}): real ok={} model ok={}; state before {:?}", step, a, b, real_ok, model_ok, before),
                            None,
                        );
                        break;
                    }
                    let mc = m.canon();
                    if after != mc {
                        r.violate("result-differs-from-most-general-unifier", format!("step {}: relate({:?}, {:?}) ok={}: real state {:?}, model (mgu) {:?}", step, a, b, real_ok, after, mc), None);
                        break;
                    }
                } else {
                    if real_ok != rev_ok || real_ok != inv_on_clone {
                        r.violate("order-of-arguments-changes-success", format!("step {}: relate(a, b) ok={} (on a clone ok={}), relate(b, a) on a clone ok={}; a={:?} b={:?}", step, real_ok, inv_on_clone, rev_ok, a, b), None);
                        break;
                    }
                    if !real_ok {
                        let probe_after = clone_probe(&table);
                        if before != after {
                            r.violate("failed-relate-changed-bindings", format!("step {}: relate({:?}, {:?}) failed but the state went from {:?} to {:?}", step, a, b, before, after), None);
                            break;
                        }
                        if probe_before != probe_after {
                            r.violate("failed-relate-changed-universes-or-variables", format!("step {}: next (universe, variable) on a clone {:?} -> {:?}", step, probe_before, probe_after), None);
                            break;
                        }
                    }
                    // stay in lock step with the model so that later ops see the same state
                    if real_ok != model_ok {
                        break; // C14's business
                    }
                }
            }
        }
    }
    r.bump("sim.ops", spec.ops.len() as u64);
    r.shape = shape.0;
    r.log = log.0;
    if r.idx % 9973 == 0 {
        r.sample = Some(serde_json::json!({"history": spec.ops.iter().take(14).map(|o| format!("{:?}", o)).collect::<Vec<_>>()}));
    }
}

pub fn shrink_candidates(spec_v: &Value) -> Vec<Value> {
    let s: ISpec = match serde_json::from_value(spec_v.clone()) {
        Ok(s) => s,
        Err(_) => return vec![],
    };
    let mut out = vec![];
    let n = s.ops.len();
    if n > 2 {
        let mut a = s.clone();
        a.ops.truncate(n / 2);
        out.push(a);
    }
    for i in (0..n).rev() {
        // never drop NewVar / NewUniverse blindly: stale operations are skipped by exec, so dropping is safe
        let mut c = s.clone();
        c.ops.remove(i);
        out.push(c);
    }
    out.into_iter().map(|c| serde_json::to_value(c).unwrap()).collect()
}
