//! C27 — in-place folding is memory-safe at every failure point. The engine is the separate
//! `fold-sim` binary (/verif/fold) so that the very same program also runs under Miri; this module
//! enumerates its bounded space and turns its verdicts into run results.

use crate::run::{CheckMeta, RunResult};
use serde_json::{json, Value};
use std::process::Command;

pub const KINDS: &[&str] = &[
    "vec-public-same-type",
    "vec-hook-same-layout",
    "vec-hook-different-layout",
    "vec-hook-zst",
    "vec-public-zst",
    "box-public-same-type",
    "box-hook-same-layout",
    "box-hook-different-layout",
    "box-hook-zst",
];

pub fn meta() -> CheckMeta {
    CheckMeta {
        id: "C27",
        level: "fault_enumeration",
        rule: "exhaustive enumeration of the bounded space: container (Vec, Box) x element kind (same type through the public TypeFoldable impls; T != U with identical layout, with different layout, zero-sized — through the cfg-guarded re-export of the in-place routines) x length 0..=N (N = 8 quick, 24 thorough) x EVERY fault position x fault mode (none, folder returns Err, folder panics). One run = one (kind, length) pair with all its positions and modes. Oracles per case: the caller observes exactly the injected outcome; on failure every element has been dropped exactly once by the time the error/unwind reaches the caller, on success none before the result is dropped and each exactly once afterwards (drop ledger; elements own heap memory whose content is verified in Drop); live allocations before == after (counting global allocator, measured out of line). Thorough additionally runs the same binary under Miri (undefined behaviour, leaks, double free, uninitialised reads). Non-trivial = a case in which a fault was injected at a valid position; distinct = distinct (kind, length) pairs with at least one such case.",
        assumptions: vec!["lengths up to the stated bound; the in-place path is length-uniform (one loop), so the bound is not a real restriction", "Miri runs a smaller length bound (cost)"],
        real: "chalk-ir fold::in_place (fallible_map_vec, fallible_map_box, VecMappedInPlace and its Drop), TypeFoldable for Vec<T> / Box<T>",
        stubs: "element types with drop ledger, failing folder, counting allocator",
    }
}

fn max_len(tier: &str) -> u32 {
    if tier == "quick" { 8 } else { 24 }
}

pub fn n_runs(tier: &str) -> u64 {
    // vec kinds: one run per length; box kinds: one run each; thorough: plus one Miri run
    let vec_kinds = KINDS.iter().filter(|k| k.starts_with("vec")).count() as u64;
    let box_kinds = KINDS.len() as u64 - vec_kinds;
    vec_kinds * (max_len(tier) as u64 + 1) + box_kinds + if tier == "quick" { 0 } else { 1 }
}

pub fn gen(tier: &str, idx: u64) -> Value {
    let ml = max_len(tier) as u64;
    let vec_kinds: Vec<&&str> = KINDS.iter().filter(|k| k.starts_with("vec")).collect();
    let box_kinds: Vec<&&str> = KINDS.iter().filter(|k| k.starts_with("box")).collect();
    let nv = vec_kinds.len() as u64 * (ml + 1);
    if idx < nv {
        json!({"kind": vec_kinds[(idx / (ml + 1)) as usize], "len": idx % (ml + 1), "miri": false})
    } else if idx < nv + box_kinds.len() as u64 {
        json!({"kind": box_kinds[(idx - nv) as usize], "len": 1, "miri": false})
    } else {
        json!({"kind": "all", "len": 5, "miri": true})
    }
}

fn fold_dir() -> String {
    format!("{}/fold", crate::world::verif_root())
}

pub fn exec(spec: &Value, r: &mut RunResult) {
    let kind = spec["kind"].as_str().unwrap_or("");
    let len = spec["len"].as_u64().unwrap_or(0);
    let miri = spec["miri"].as_bool().unwrap_or(false);
    let out = if let Some(case) = spec.get("case").and_then(|c| c.as_str()) {
        Command::new(format!("{}/target/release/fold-sim", fold_dir())).args(["--case", case]).output()
    } else if miri {
        Command::new("cargo")
            .current_dir(fold_dir())
            .env("CARGO_NET_OFFLINE", "true")
            .env("MIRIFLAGS", "-Zmiri-disable-isolation")
            .args(["+nightly", "miri", "run", "--offline", "--", "--max-len", &len.to_string()])
            .output()
    } else {
        Command::new(format!("{}/target/release/fold-sim", fold_dir())).args(["--kind", kind, "--len", &len.to_string(), "--max-len", &len.to_string()]).output()
    };
    let out = match out {
        Ok(o) => o,
        Err(e) => {
            r.outcome = format!("harness-panic: cannot run fold-sim: {}", e);
            return;
        }
    };
    let stdout = String::from_utf8_lossy(&out.stdout).to_string();
    let stderr = String::from_utf8_lossy(&out.stderr).to_string();
    let line = stdout.lines().rev().find(|l| l.starts_with('{')).unwrap_or("");
    let v: Value = match serde_json::from_str(line) {
        Ok(v) => v,
        Err(_) => {
            if miri {
                // Miri aborts the program on undefined behaviour: that is a finding, not a harness error
                let ub = stderr.lines().filter(|l| l.contains("error:") || l.contains("Undefined Behavior") || l.contains("memory leaked")).take(4).collect::<Vec<_>>().join(" | ");
                r.violate("miri-reported-an-error", format!("fold-sim under Miri did not complete: {}", if ub.is_empty() { stderr.chars().rev().take(600).collect::<String>().chars().rev().collect() } else { ub }), None);
                r.pin = Some(json!({"miri": true}));
            } else if let Some(sig) = std::os::unix::process::ExitStatusExt::signal(&out.status) {
                // the real allocator or the CPU stopped the process (double free detected by glibc, SIGSEGV, SIGABRT):
                // memory unsafety observed directly — a finding, not a harness error
                r.violate(
                    "process-killed-by-signal",
                    format!("fold-sim died with signal {} while folding: {}", sig, stderr.chars().rev().take(300).collect::<String>().chars().rev().collect::<String>().replace('\n', " | ")),
                    None,
                );
            } else {
                r.outcome = format!("harness-panic: fold-sim produced no result (status {:?}): {}", out.status.code(), stderr.chars().take(300).collect::<String>());
            }
            return;
        }
    };
    let cases = v["cases"].as_u64().unwrap_or(0);
    r.bump(if miri { "c27.cases_under_miri" } else { "c27.cases" }, cases);
    r.bump("fault.folder_returned_err", v["err_returns_observed"].as_u64().unwrap_or(0));
    r.bump("fault.folder_panicked", v["panics_observed"].as_u64().unwrap_or(0));
    r.bump("c27.cases_without_fault", v["successes_observed"].as_u64().unwrap_or(0));
    if miri {
        r.bump("c27.miri_runs_completed", 1);
    }
    r.nontrivial = v["err_returns_observed"].as_u64().unwrap_or(0) + v["panics_observed"].as_u64().unwrap_or(0) > 0;
    r.shape = crate::rng::fnv(format!("{}/{}/{}", kind, len, miri).as_bytes());
    r.log = crate::rng::fnv(line.as_bytes());
    if let Some(bad) = v["bad"].as_array() {
        for b in bad.iter().take(3) {
            let case = b["case"].as_str().unwrap_or("").to_string();
            r.violate("memory-safety-of-in-place-fold", format!("case (kind,len,fault position,mode) = {}: {}", case, b["problems"]), None);
            if r.pin.is_none() {
                r.pin = Some(json!({"case": case, "miri": false}));
            }
        }
    }
    if len == 3 || miri {
        r.sample = Some(json!({"kind": kind, "len": len, "miri": miri, "cases": cases, "fold_sim_output": line.chars().take(300).collect::<String>()}));
    }
}
