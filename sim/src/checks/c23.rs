//! C23 — the logged program reproduces the solver's answers. Record through the real
//! LoggingRustIrDatabase, print, re-parse in a fresh world ("restart from what was recorded"), re-solve.

use super::*;
use chalk_integration::interner::ChalkIr;
use chalk_solve::logging_db::LoggingRustIrDatabase;

pub fn meta() -> CheckMeta {
    CheckMeta {
        id: "C23",
        level: "exploration",
        rule: "one run = one world of the C01/C05/C07 fragments (W-gen; W-corpus entries without lifetimes, built-in/lang items, dyn, opaque types, fn defs, closures, coroutines, custom clauses) and a PRNG-drawn sequence of goals solved by both solvers THROUGH ONE LoggingRustIrDatabase wrapper (over SimDb); at PRNG-chosen restart points the wrapper is printed, the text is parsed and lowered as a NEW program, the goals of the prefix are re-lowered against it and solved by fresh solvers; answers are compared by item names. Two stages: strict (logged text alone) and with-stubs (declarations of items that only the goal text names are appended from the original program: the solver never asked the database about them, so they cannot have influenced the recorded answer). Non-trivial = at least two goals were recorded before a restart and the logged program is a strict subset of the original items; distinct = distinct event-log shape hash.",
        assumptions: vec![
            "answers compared by names with region constraints sorted",
            "a goal that cannot be lowered against the logged text because it names an item no database call mentioned is attributed to known finding F6b and re-checked in the with-stubs stage",
            "goals whose original solve exceeds the step budget or panics are excluded",
        ],
        real: "chalk-solve logging_db (LoggingRustIrDatabase, id_collector), display (write_items, write_stub_items), chalk-parse + lowering of the logged text, both solvers",
        stubs: "SimDb (delegating), client",
    }
}

pub fn n_runs(tier: &str) -> u64 {
    if tier == "quick" { 2_500 } else { 150_000 }
}

fn c23_fragment(w: &World) -> bool {
    let bad = ["'", "#[lang", "#[well_known", "dyn ", "opaque ", "fn ", "closure ", "coroutine ", " if ", "forall<> ", "extern ", "#[fundamental", "#[upstream", "#[non_enumerable", "#[object_safe", "const ", "#[phantom_data", "#[marker", "#[specialization", "foreign "];
    !w.items.iter().any(|i| bad.iter().any(|b| i.contains(b))) && !w.goals.iter().any(|g| g.contains('\'') || g.contains("dyn ") || g.contains("WellFormed") || g.contains("FromEnv") || g.contains("Compatible") || g.contains("Reveal") || g.contains("IsLocal") || g.contains("IsUpstream") || g.contains("IsFullyVisible") || g.contains("LocalImplAllowed") || g.contains("DownstreamType"))
}

pub fn c23_entries() -> &'static Vec<usize> {
    static F: std::sync::OnceLock<Vec<usize>> = std::sync::OnceLock::new();
    F.get_or_init(|| {
        let c = corpus();
        (0..c.entries.len()).filter(|&i| !c.entries[i].goals.is_empty() && c23_fragment(&c.world(i))).collect()
    })
}

pub fn gen(tier: &str, seed: u64, idx: u64, base: u64) -> Spec {
    let _ = (tier, base);
    let mut rng = Rng::new(seed);
    let list = c23_entries();
    let world = if rng.coin(35) && !list.is_empty() {
        corpus().world(list[(idx as usize) % list.len()])
    } else {
        {
            let prof = if rng.coin(40) { wgen::Profile::Coinductive } else { wgen::Profile::Any };
            wgen::gen_world(&mut rng, prof)
        }
    };
    let goals = usable_goals(&world, &["slg", "rec"]);
    let mut ops = vec![];
    if !goals.is_empty() {
        for _ in 0..rng.range(1, 10) {
            let goal = *rng.pick(&goals);
            ops.push(Op { kind: OpKind::Solve, slot: rng.below(2), goal, fault: None });
        }
    }
    let mut params = std::collections::BTreeMap::new();
    // restart after the k-th op (and always at the end)
    params.insert("restart_after".to_string(), if ops.is_empty() { 0 } else { rng.range(1, ops.len()) as i64 });
    Spec { check: "C23".into(), world, slots: vec![SlotCfg::slg(), SlotCfg::rec()], ops, db: DbCfg::default(), budget: 300_000, points: None, scheds: None, cap: 0, params }
}

pub fn exec(spec: &Spec, r: &mut RunResult) {
    if spec.ops.is_empty() {
        r.bump("excluded.no_usable_goal", 1);
        return;
    }
    let mut l = match lower(&spec.world) {
        Ok(l) => l,
        Err(_) => {
            r.outcome = "invalid-world".into();
            r.bump("excluded.invalid_world", 1);
            return;
        }
    };
    let p = l.p.clone();
    let mut rec = Recorder::new(true);
    let restart_after = (*spec.params.get("restart_after").unwrap_or(&0)).max(1) as usize;
    // record
    let (recorded, texts): (Vec<Option<String>>, Vec<(usize, String)>) = with_program(&p, || {
        lower_goals(&mut l, &spec.world);
        let db = mk_db(&l, &spec.db);
        let wrapped = LoggingRustIrDatabase::<ChalkIr, SimDb, &SimDb>::new(&db);
        let mut recorded = vec![];
        let mut texts = vec![];
        for (oi, op) in spec.ops.iter().enumerate() {
            let ans = match l.goals.get(op.goal).and_then(|g| g.as_ref()) {
                Some(g) => {
                    // a fresh solver per goal: solver state is C10's subject, the wrapper's accumulated record is this check's
                    let mut solver = fresh_solver(&spec.slots[op.slot]);
                    let (out, st) = run_op_on(&mut *solver, &wrapped, &db, g, &op.kind, None, spec.budget);
                    account(r, &out, &st, &op.kind);
                    rec.op(&spec.slots[op.slot], &op.kind, None, &out, &st, &spec.world.goals[op.goal]);
                    match &out {
                        Out::Ans(s) => Some(cmp::names_fmt(s)),
                        _ => None,
                    }
                }
                None => None,
            };
            recorded.push(ans);
            if oi + 1 == restart_after || oi + 1 == spec.ops.len() {
                let text = match std::panic::catch_unwind(std::panic::AssertUnwindSafe(|| wrapped.to_string())) {
                    Ok(t) => t,
                    Err(e) => {
                        r.violate("printing-the-logged-program-panicked", panic_msg(&e), Some("log:print-panic"));
                        continue;
                    }
                };
                texts.push((oi + 1, text));
            }
        }
        (recorded, texts)
    });
    // replay each restart point in a fresh world
    for (upto, text) in texts {
        r.bump("fault.restarts_from_logged_text", 1);
        let logged_items = crate::world::split_items(&text);
        if upto >= 2 && logged_items.len() < spec.world.items.len() {
            r.nontrivial = true;
        }
        for stage in ["strict", "with-stubs"] {
            let mut items = logged_items.clone();
            if stage == "with-stubs" {
                // append original declarations of items that the logged text does not declare (by name)
                let declared = |its: &Vec<String>, name: &str| its.iter().any(|i| decl_name(i).as_deref() == Some(name));
                for it in &spec.world.items {
                    if let Some(n) = decl_name(it) {
                        if !declared(&items, &n) {
                            items.push(stub_of(it));
                        }
                    }
                }
            }
            let w2 = World { source: format!("logged({})", stage), items, goals: spec.world.goals.clone() };
            let mut l2 = match lower(&w2) {
                Ok(x) => x,
                Err(e) => {
                    if stage == "strict" {
                        r.violate("logged-program-does-not-lower", format!("after {} goals the logged program does not parse/lower: {} :: {}", upto, e, text.replace('\n', " ").chars().take(500).collect::<String>()), Some("log:unparsable"));
                    }
                    continue;
                }
            };
            let p2 = l2.p.clone();
            let mut unlowerable = 0;
            with_program(&p2, || {
                lower_goals(&mut l2, &w2);
                for (oi, op) in spec.ops.iter().enumerate().take(upto) {
                    let orig = match &recorded[oi] {
                        Some(o) => o,
                        None => continue,
                    };
                    let g2 = match l2.goals.get(op.goal).and_then(|g| g.as_ref()) {
                        Some(g) => g.clone(),
                        None => {
                            unlowerable += 1;
                            continue;
                        }
                    };
                    let (out, st) = fresh_answer(&l2.p, &spec.slots[op.slot], &g2, &op.kind, spec.budget);
                    account(r, &out, &st, &op.kind);
                    let replayed = match &out {
                        Out::Ans(s) => cmp::names_fmt(s),
                        o => fmt_out(o),
                    };
                    r.bump(&format!("c23.compared_{}", stage.replace('-', "_")), 1);
                    if &replayed != orig {
                        let class = if stage == "strict" { "replayed-answer-differs" } else { "replayed-answer-differs-with-stubs" };
                        if !r.violations.iter().any(|v| v.class == class) {
                            let auto = spec.world.items.iter().any(|i| i.contains("#[auto]"));
                            let neg = spec.world.items.iter().any(|i| i.contains("impl !") || i.contains("impl<") && i.contains("> !"));
                            r.violate(
                                class,
                                format!("goal `{}` ({}): recorded `{}`, on the logged program `{}` | logged: {}", spec.world.goals[op.goal], spec.slots[op.slot].name(), orig, replayed, text.replace('\n', " ").chars().take(600).collect::<String>()),
                                Some(&(format!(
                                    "log:{}{}{}{}",
                                    class,
                                    if auto { "+auto-trait" } else { "" },
                                    if neg { "+negative-impl" } else { "" },
                                    if orig.starts_with("Ambiguous") && !spec.world.goals[op.goal].contains("exists") { "+recorded-ambiguous-closed" } else { "" }
                                ) + &static_tags(&spec.world, op.goal)
                                    + if orig.starts_with("Ambiguous") != replayed.starts_with("Ambiguous") && !orig.starts_with("No possible") && !replayed.starts_with("No possible") { "+unique-vs-ambig" } else if orig.starts_with("Ambiguous") && replayed.starts_with("Ambiguous") { "+guidance-differs" } else { "" })),
                            );
                        }
                    }
                }
            });
            if unlowerable > 0 && stage == "strict" {
                r.bump("c23.goals_unlowerable_against_logged_text", unlowerable);
                if !r.violations.iter().any(|v| v.class == "goal-unlowerable-against-logged-text") {
                    r.violate(
                        "goal-unlowerable-against-logged-text",
                        format!("{} recorded goal(s) cannot be lowered against the logged program (it omits items only the goal names) | logged: {}", unlowerable, text.replace('\n', " ").chars().take(400).collect::<String>()),
                        Some("log:goal-names-unrecorded-item"),
                    );
                }
            }
        }
    }
    r.shape = rec.shape.0;
    r.log = rec.log.0;
    if r.idx % 499 == 0 {
        r.sample = Some(serde_json::json!({"world": spec.world.source, "program": spec.world.program_text().chars().take(400).collect::<String>(), "history": rec.trace.iter().take(8).collect::<Vec<_>>()}));
    }
}

/// name declared by a struct/trait item (impls declare nothing)
fn decl_name(item: &str) -> Option<String> {
    let mut toks = item.split(|c: char| !(c.is_alphanumeric() || c == '_')).filter(|t| !t.is_empty());
    while let Some(t) = toks.next() {
        if t == "struct" || t == "trait" || t == "enum" {
            return toks.next().map(|s| s.to_string());
        }
        if t == "impl" {
            return None;
        }
    }
    None
}

/// the original declaration, used as the stub (structs keep their fields: field types may only name
/// items that are declared either in the logged text or among the appended originals)
fn stub_of(item: &str) -> String {
    item.to_string()
}
