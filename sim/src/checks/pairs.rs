//! C04 — the two solvers never contradict each other; C28 — every returned solution is well-formed for
//! its query. Both are monitors over the responses of simulated runs (W-corpus ∪ W-gen): fresh, warm,
//! interrupted, after recovered panics, under permuted / widened database answers.

use super::*;

#[derive(Clone, Copy, PartialEq)]
pub enum Mode {
    C04,
    C28,
}

pub fn meta(m: Mode) -> CheckMeta {
    match m {
        Mode::C04 => CheckMeta {
            id: "C04",
            level: "exploration",
            rule: "one run = one world (any W-corpus entry, incl. associated types, built-ins, custom clauses, lifetimes; or W-gen), the SLG and the recursive solver driven as two servers of ONE PRNG-drawn history (solve, limited, interrupted, faulted+retry) under one database behaviour (plain / permuted / superset); after every operation the latest answers of the two solvers for that goal are compared pairwise: never 'No possible solution' vs Unique, two Uniques equal up to lifetimes and renaming, a Unique an instance of the other's definite guidance. Fresh answers are compared as well. Non-trivial = both solvers answered the goal and at least one answer came from a perturbed context; distinct = distinct event-log shape hash.",
            assumptions: vec![
                "lifetimes are erased in the comparison (the property excludes lifetime constraints)",
                "instance test by one-way matching; shapes the matcher does not decide (dyn, fn pointers, aliases containing variables) never alarm",
                "goals tagged on the unchanged tree as hanging/aborting/documented-panic are not posed",
            ],
            real: "chalk-parse, lowering, chalk-solve, chalk-engine, chalk-recursive",
            stubs: "SimDb (delegating), client",
        },
        Mode::C28 => CheckMeta {
            id: "C28",
            level: "exploration",
            rule: "one run = one world (W-corpus incl. lifetimes and const generics, or W-gen) and one PRNG-drawn history on both solvers incl. interrupted solves (Suggested guidance), faulted+retried solves and SLG answer enumeration; EVERY returned solution / enumerated answer is checked structurally against its query: one entry per unknown, same kind, bound variables only of the solution's own binders, no inference variable, no placeholder or binder universe beyond the query's, and applying the substitution to the query does not fail. Non-trivial = the answer carries a non-empty substitution and came from a perturbed context or an enumeration; distinct = distinct event-log shape hash.",
            assumptions: vec!["structural check only; truth of answers is C01's subject", "goals tagged as hanging/aborting on the unchanged tree are not posed"],
            real: "chalk-parse, lowering, chalk-solve (canonicalisation, ucanonicalisation), chalk-engine (aggregate, answer stream), chalk-recursive (fulfill)",
            stubs: "SimDb (delegating), client",
        },
    }
}

pub fn n_runs(m: Mode, tier: &str) -> u64 {
    let _ = m;
    if tier == "quick" { 5_000 } else { 300_000 }
}

pub fn gen(m: Mode, tier: &str, seed: u64, idx: u64, base: u64) -> Spec {
    let _ = tier;
    let mut rng = Rng::new(seed);
    let world = if rng.coin(if m == Mode::C28 { 30 } else { 12 }) {
        wgen::gen_zoo(&mut rng)
    } else if m == Mode::C04 && rng.coin(8) {
        // mixed inductive/coinductive cycles: outside every reference fragment, but C04 needs no reference
        wgen::gen_world(&mut rng, wgen::Profile::CycMixed)
    } else {
        pick_world(&mut rng, base, idx, 55, wgen::Profile::Any)
    };
    let goals = usable_goals(&world, &["slg", "rec"]);
    let slots = vec![SlotCfg::slg(), SlotCfg::rec()];
    let mut db = DbCfg::default();
    match rng.below(4) {
        0 | 1 => {}
        2 => db.perm_seed = Some(rng.next()),
        _ => db.superset = true,
    }
    let mut ops = vec![];
    if !goals.is_empty() && goals.len() <= 14 && world.source == "wgen" && rng.coin(45) {
        // small generated worlds: every goal to both solvers, twice, in PRNG order (cycle members asked after the head ...)
        for _ in 0..2 {
            let mut order = goals.clone();
            rng.shuffle(&mut order);
            for goal in order {
                let sl = if rng.coin(50) { [0usize, 1] } else { [1, 0] };
                for &slot in &sl {
                    ops.push(Op { kind: OpKind::Solve, slot, goal, fault: None });
                }
            }
        }
    } else if !goals.is_empty() {
        for _ in 0..rng.range(4, 24) {
            let goal = *rng.pick(&goals);
            let k = rng.below(100);
            // both solvers get the same question, in PRNG order
            let order = if rng.coin(50) { [0usize, 1] } else { [1, 0] };
            for &slot in &order {
                if k < 60 {
                    ops.push(Op { kind: OpKind::Solve, slot, goal, fault: None });
                } else if k < 70 {
                    ops.push(Op { kind: OpKind::Limited(Sched::Never), slot, goal, fault: None });
                } else if k < 82 {
                    let s = match rng.below(3) {
                        0 => Sched::StopAt(rng.range(1, 8) as u64),
                        1 => Sched::From(rng.range(1, 8) as u64),
                        _ => Sched::Coin { seed: rng.next(), pct: 25 },
                    };
                    ops.push(Op { kind: OpKind::Limited(s), slot, goal, fault: None });
                } else if k < 92 {
                    ops.push(Op { kind: OpKind::Solve, slot, goal, fault: Some(rng.range(1, 100) as u64) });
                    ops.push(Op { kind: OpKind::Solve, slot, goal, fault: None });
                } else if slot == 0 && m == Mode::C28 {
                    ops.push(Op { kind: OpKind::Multi { stop_after: rng.range(0, 4), cap: 16 }, slot, goal, fault: None });
                } else {
                    ops.push(Op { kind: OpKind::Solve, slot, goal, fault: None });
                }
            }
        }
    }
    Spec { check: if m == Mode::C04 { "C04" } else { "C28" }.into(), world, slots, ops, db, budget: 300_000, points: None, scheds: None, cap: 0, params: Default::default() }
}

/// what does the reference model say about the goal (fragment worlds only)? Used to tell WHICH solver is wrong.
fn ref_tag(frag: &Option<(wgen::Prog, Vec<Result<wgen::Goal, String>>)>, gi: usize) -> &'static str {
    if let Some((prog, goals)) = frag {
        if let Some(Ok(ast)) = goals.get(gi) {
            if !ast.has_exists() {
                return match crate::reference::eval_closed(prog, ast, 40_000).0 {
                    crate::reference::Tv::T => "+ref-true",
                    crate::reference::Tv::F => "+ref-false",
                    crate::reference::Tv::U => "",
                };
            } else if let Some(info) = crate::reference::eval_exists(prog, ast, 2, 5_000, 900) {
                if !info.sols.is_empty() {
                    return "+ref-true";
                }
                // no solution in a bounded universe proves nothing about deeper ones: only unsatisfiable equations do
                if info.unsat {
                    return "+ref-false";
                }
            }
        }
    }
    ""
}

/// ref_tag, and where it is undecided for a goal with unknowns: the witness check on whichever answer is `Unique`
fn ref_tag_w(frag: &Option<(wgen::Prog, Vec<Result<wgen::Goal, String>>)>, gi: usize, program: &chalk_integration::program::Program, a: &Sol, b: &Sol) -> &'static str {
    let t = ref_tag(frag, gi);
    if !t.is_empty() {
        return t;
    }
    if let Some((prog, goals)) = frag {
        if let Some(Ok(ast)) = goals.get(gi) {
            for s in [a, b] {
                match crate::refcheck::witness_holds(prog, ast, program, s, 40_000) {
                    Some(true) => return "+ref-true",
                    Some(false) => return "+ref-witness-false",
                    None => {}
                }
            }
        }
    }
    ""
}

/// which way a contradiction between the SLG answer `a` and the recursive answer `b` goes
fn direction(a: &Sol, b: &Sol) -> &'static str {
    match (a, b) {
        (None, Some(_)) => "slg-none-rec-unique",
        (Some(_), None) => "slg-unique-rec-none",
        _ => "substitutions-differ",
    }
}

pub fn exec(m: Mode, spec: &Spec, r: &mut RunResult) {
    let mut l = match lower(&spec.world) {
        Ok(l) => l,
        Err(_) => {
            r.outcome = "invalid-world".into();
            r.bump("excluded.invalid_world", 1);
            return;
        }
    };
    let p = l.p.clone();
    let frag = wgen::parse_world(&spec.world).ok();
    with_program(&p, || {
        lower_goals(&mut l, &spec.world);
        let db = mk_db(&l, &spec.db);
        let mut slots = make_slots(&spec.slots);
        let mut rec = Recorder::new(true);
        let mut memo = FreshMemo::new();
        let perturbed_db = spec.db.perm_seed.is_some() || spec.db.superset;
        // latest answer per (slot, goal) and whether it came from a perturbed context
        let mut latest: Vec<std::collections::BTreeMap<usize, (Sol, bool)>> = vec![Default::default(); slots.len()];
        let mut warm = vec![false; slots.len()];
        let mut poisoned = vec![false; slots.len()];
        let mut interrupted_slot = vec![false; slots.len()];
        let tainted: Vec<String> = frag.as_ref().map(|(p, _)| wgen::co_tainted(p)).unwrap_or_default();
        for (oi, op) in spec.ops.iter().enumerate() {
            if poisoned[op.slot] {
                continue;
            }
            let g = match l.goals.get(op.goal).and_then(|g| g.as_ref()) {
                Some(g) => g.clone(),
                None => {
                    r.bump("excluded.goal_unlowerable", 1);
                    continue;
                }
            };
            let cfg = spec.slots[op.slot].clone();
            let (out, st) = run_op(&mut slots[op.slot], &db, &g, &op.kind, op.fault, spec.budget);
            account(r, &out, &st, &op.kind);
            rec.op(&cfg, &op.kind, op.fault, &out, &st, &spec.world.goals[op.goal]);
            let ctx = warm[op.slot] || st.sc_false > 0 || perturbed_db;
            warm[op.slot] = true;
            match &out {
                Out::Budget => {
                    poisoned[op.slot] = true;
                    continue;
                }
                Out::Panic(msg) => {
                    // documented carve-outs are not this property's business
                    r.bump("excluded.solver_panicked", 1);
                    let _ = msg;
                    poisoned[op.slot] = true;
                    continue;
                }
                _ => {}
            }
            match m {
                Mode::C28 => {
                    let mut check = |what: String, problems: Vec<String>, nonempty: bool, r: &mut RunResult| {
                        r.bump("c28.solutions_checked", 1);
                        if nonempty && (ctx || matches!(op.kind, OpKind::Multi { .. })) {
                            r.nontrivial = true;
                        }
                        if !problems.is_empty() {
                            r.violate(
                                "malformed-solution",
                                format!("op #{} {} {:?} on `{}` returned {}: {}", oi, cfg.name(), op.kind, spec.world.goals[op.goal], what, problems.join("; ")),
                                Some(&format!("{}:malformed", cfg.kind())),
                            );
                        }
                    };
                    match &out {
                        Out::Ans(Some(s)) => {
                            let nonempty = g.canonical.binders.len(chalk_integration::interner::ChalkIr) > 0;
                            match s {
                                chalk_solve::Solution::Ambig(chalk_solve::Guidance::Suggested(_)) => r.bump("c28.suggested_guidance_checked", 1),
                                chalk_solve::Solution::Ambig(chalk_solve::Guidance::Definite(_)) => r.bump("c28.definite_guidance_checked", 1),
                                _ => {}
                            }
                            check(format!("`{}`", fmt_sol(&Some(s.clone()))), cmp::wellformed_solution(&g, s), nonempty, r);
                        }
                        Out::Multi { answers, .. } => {
                            for (a, _) in answers {
                                if let MultiAns::Definite(c) | MultiAns::Ambiguous(c) = a {
                                    r.bump("c28.enumerated_answers_checked", 1);
                                    check(format!("enumerated answer `{}`", fmt_multi(a)), cmp::wellformed_subst(&g, &c.binders, &c.value.subst, Some(&c.value.constraints)), true, r);
                                }
                            }
                        }
                        _ => {}
                    }
                }
                Mode::C04 => {
                    if st.sc_false > 0 {
                        // an interrupted answer is a safe approximation at best (C11's subject), not "the solver's answer";
                        // what an interruption leaves behind in the solver is C11's subject as well
                        r.bump("c04.interrupted_answers_not_compared", 1);
                        interrupted_slot[op.slot] = true;
                        continue;
                    }
                    if interrupted_slot[op.slot] {
                        r.bump("c04.answers_after_an_interruption_not_compared", 1);
                        continue;
                    }
                    if let Out::Ans(s) = &out {
                        latest[op.slot].insert(op.goal, (s.clone(), ctx));
                        let other = 1 - op.slot;
                        if let Some((o, octx)) = latest[other].get(&op.goal).cloned() {
                            r.bump("c04.pairs_compared", 1);
                            if ctx || octx {
                                r.nontrivial = true;
                                r.bump("c04.pairs_compared_perturbed", 1);
                            }
                            let (a, b) = if op.slot == 0 { (s.clone(), o) } else { (o, s.clone()) };
                            if let Some(why) = cmp::contradiction(&a, &b) {
                                let mut sig = format!("pair:{}", direction(&a, &b));
                                if let Some((_, goals)) = &frag {
                                    if let Some(Ok(ast)) = goals.get(op.goal) {
                                        let mut gp = vec![];
                                        ast.preds(&mut gp);
                                        if gp.iter().any(|p| tainted.contains(&p.tr)) {
                                            sig.push_str("+co-reach");
                                        }
                                    }
                                }
                                sig.push_str(ref_tag_w(&frag, op.goal, &l.p, &a, &b));
                                if hyp_mentions_unknown(&spec.world.goals[op.goal]) {
                                    sig.push_str("+unknown-in-hyp");
                                }
                                if crate::ssim::nonlinear_impl_header(&spec.world.items.join("\n")) {
                                    sig.push_str("+nonlinear");
                                }
                                if crate::ssim::mixed_cycle_world(&spec.world) {
                                    sig.push_str("+mixed-cycle");
                                }
                                r.violate(
                                    "solvers-contradict",
                                    format!("goal `{}` (after op #{}): SLG answers `{}`, recursive solver answers `{}`: {}", spec.world.goals[op.goal], oi, fmt_sol(&a), fmt_sol(&b), why),
                                    Some(&sig),
                                );
                            }
                        }
                    }
                }
            }
        }
        if m == Mode::C04 {
            // fresh vs fresh for every goal of the history
            let mut used: Vec<usize> = spec.ops.iter().map(|o| o.goal).collect();
            used.sort();
            used.dedup();
            for gi in used {
                if l.goals.get(gi).and_then(|g| g.as_ref()).is_none() {
                    continue;
                }
                let a = memo.get(&l, &SlotCfg::slg(), gi, &OpKind::Solve, spec.budget).0.clone();
                let b = memo.get(&l, &SlotCfg::rec(), gi, &OpKind::Solve, spec.budget).0.clone();
                if let (Out::Ans(a), Out::Ans(b)) = (&a, &b) {
                    r.bump("c04.fresh_pairs_compared", 1);
                    if let Some(why) = cmp::contradiction(a, b) {
                        let mut sig = format!("pair:{}", direction(a, b));
                        if let Some((_, goals)) = &frag {
                            if let Some(Ok(ast)) = goals.get(gi) {
                                let mut gp = vec![];
                                ast.preds(&mut gp);
                                if gp.iter().any(|p| tainted.contains(&p.tr)) {
                                    sig.push_str("+co-reach");
                                }
                            }
                        }
                        sig.push_str(ref_tag_w(&frag, gi, &l.p, a, b));
                        if hyp_mentions_unknown(&spec.world.goals[gi]) {
                            sig.push_str("+unknown-in-hyp");
                        }
                        if crate::ssim::nonlinear_impl_header(&spec.world.items.join("\n")) {
                            sig.push_str("+nonlinear");
                        }
                        if crate::ssim::mixed_cycle_world(&spec.world) {
                            sig.push_str("+mixed-cycle");
                        }
                        r.violate("solvers-contradict", format!("goal `{}` (fresh solvers): SLG answers `{}`, recursive solver answers `{}`: {}", spec.world.goals[gi], fmt_sol(a), fmt_sol(b), why), Some(&sig));
                    }
                }
            }
        }
        r.bump("sim.fresh_solves", memo.computed);
        r.shape = rec.shape.0;
        r.log = rec.log.0 ^ db.log_hash();
        if r.idx % 499 == 0 {
            r.sample = Some(serde_json::json!({"world": spec.world.source, "program": spec.world.program_text().chars().take(500).collect::<String>(), "db": spec.db, "history": rec.trace.iter().take(10).collect::<Vec<_>>()}));
        }
    });
}
