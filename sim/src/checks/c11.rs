//! C11 — interrupted solving is a safe approximation; later solves equal a fresh solver.
//! Fault enumeration over interruption schedules of the `should_continue` seam.

use super::*;

pub fn meta() -> CheckMeta {
    CheckMeta {
        id: "C11",
        level: "fault_enumeration",
        rule: "one run = one (world, goal, solver slot set, follow-up operations) tuple; a counting run learns n = number of should_continue invocations of the full solve; then EVERY schedule StopAt(k) and From(k) for k <= min(n, cap) (strided above cap), plus Every(2), Every(3), Always and two Coin(p) schedules, is executed on a brand-new solver, each followed on the same solver(s) by the follow-up solves (unlimited, limited-never-interrupting, and again interrupted). Oracle: interrupted answer == full answer or is Ambiguous and does not contradict it (definite guidance must have the full answer as an instance); every later uninterrupted answer == fresh solver. Non-trivial = at least one should_continue actually returned false; distinct = distinct event-log shape hash.",
        assumptions: vec![
            "C01 fragment worlds only (W-gen + the W-corpus entries the fragment parser accepts), as the property states",
            "goals whose fresh full solve exceeds the step budget or panics are excluded",
            "a later *interrupted* solve is only required to be a safe approximation (its schedule hits a different point on a warm solver)",
            "exhaustive over interruption points only up to `cap` per sampled (world, goal, solver); beyond that strided",
        ],
        real: "chalk-parse, lowering, chalk-solve, chalk-engine, chalk-recursive (solve_limited paths, cache promotion, SLG strand re-queueing)",
        stubs: "SimDb (delegating), should_continue closure driven by the schedule, client",
    }
}

pub fn n_runs(tier: &str) -> u64 {
    if tier == "quick" { 4_000 } else { 80_000 }
}

pub fn gen(tier: &str, seed: u64, idx: u64, base: u64) -> Spec {
    let mut rng = Rng::new(seed);
    let world = pick_world(&mut rng, base, idx, 50, wgen::Profile::Fragment);
    let goals = usable_goals(&world, &["slg", "rec"]);
    let mut ops = vec![];
    let which = rng.below(10);
    let slots = if which < 4 {
        vec![SlotCfg::slg()]
    } else if which < 8 {
        vec![SlotCfg::rec()]
    } else {
        vec![
            SlotCfg::Rec { max_size: 30, overflow_depth: 100, caching: true, shared: Some(0) },
            SlotCfg::Rec { max_size: 30, overflow_depth: 100, caching: true, shared: Some(0) },
        ]
    };
    if !goals.is_empty() {
        // goals with unknowns have several answers: an interruption can land between two of them (aggregation paths)
        let open: Vec<usize> = goals.iter().cloned().filter(|&g| world.goals[g].contains("exists")).collect();
        let g = if !open.is_empty() && rng.coin(40) { *rng.pick(&open) } else { *rng.pick(&goals) };
        ops.push(Op { kind: OpKind::Limited(Sched::Never), slot: 0, goal: g, fault: None });
        // follow-ups: usually re-ask the same goal first (40 %: another goal first — re-asking the interrupted goal may
        // repair what the interruption left behind), then a PRNG-drawn tail
        if goals.len() < 2 || rng.coin(60) {
            ops.push(Op { kind: OpKind::Solve, slot: rng.below(slots.len()), goal: g, fault: None });
        } else {
            let others: Vec<usize> = goals.iter().cloned().filter(|&x| x != g).collect();
            ops.push(Op { kind: OpKind::Solve, slot: rng.below(slots.len()), goal: *rng.pick(&others), fault: None });
        }
        // small worlds: sweep every goal afterwards (a poisoned entry may belong to another member of a cycle)
        if goals.len() <= 14 && rng.coin(50) {
            let mut all = goals.clone();
            rng.shuffle(&mut all);
            for goal in all {
                ops.push(Op { kind: OpKind::Solve, slot: rng.below(slots.len()), goal, fault: None });
            }
        }
        for _ in 0..rng.range(0, 5) {
            let goal = if rng.coin(40) { g } else { *rng.pick(&goals) };
            let k = rng.below(10);
            let kind = if k < 5 {
                OpKind::Solve
            } else if k < 7 {
                OpKind::Limited(Sched::Never)
            } else if k < 8 {
                OpKind::HasUnique
            } else {
                OpKind::Limited(match rng.below(3) {
                    0 => Sched::StopAt(rng.range(1, 12) as u64),
                    1 => Sched::From(rng.range(1, 12) as u64),
                    _ => Sched::Coin { seed: rng.next(), pct: 20 },
                })
            };
            ops.push(Op { kind, slot: rng.below(slots.len()), goal, fault: None });
        }
    }
    let cap = if tier == "quick" { 16 } else { 256 };
    let mut params = std::collections::BTreeMap::new();
    params.insert("coin_seed".to_string(), (rng.next() >> 1) as i64);
    Spec { check: "C11".into(), world, slots, ops, db: DbCfg::default(), budget: 400_000, points: None, scheds: None, cap, params }
}

/// `Ref`'s verdict on an interrupted answer with definite guidance that the full answer does not back: Some(detail)
/// iff the guidance excludes a solution the reference model proves (bounded universe), None otherwise / undecided.
fn unbacked_guidance_excludes_solution(spec: &Spec, l: &Lowered, goal: usize, g: &G, sol: &Sol) -> Option<String> {
    let (prog, goals) = wgen::parse_world(&spec.world).ok()?;
    let ast = goals.get(goal)?.as_ref().ok()?;
    match crate::refcheck::judge(&prog, ast, &l.p, g, sol, 40_000).0 {
        crate::refcheck::Verdict::Contradiction { class, detail } if class == "definite-excludes-solution" => Some(detail),
        _ => None,
    }
}

fn strided(n: u64, cap: u64) -> Vec<u64> {
    if n <= cap {
        (1..=n).collect()
    } else {
        let mut v: Vec<u64> = (0..cap).map(|i| 1 + i * (n - 1) / (cap - 1).max(1)).collect();
        v.dedup();
        v
    }
}

pub fn exec(spec: &Spec, r: &mut RunResult) {
    if spec.ops.is_empty() {
        r.bump("excluded.no_usable_goal", 1);
        return;
    }
    let mut l = match lower(&spec.world) {
        Ok(l) => l,
        Err(_) => {
            r.outcome = "invalid-world".into();
            r.bump("excluded.invalid_world", 1);
            return;
        }
    };
    let p = l.p.clone();
    with_program(&p, || {
        lower_goals(&mut l, &spec.world);
        let prim = &spec.ops[0];
        let g0 = match l.goals.get(prim.goal).and_then(|g| g.as_ref()) {
            Some(g) => g.clone(),
            None => {
                r.bump("excluded.goal_unlowerable", 1);
                return;
            }
        };
        let cfg0 = spec.slots[prim.slot].clone();
        let mut memo = FreshMemo::new();
        let full = memo.get(&l, &cfg0, prim.goal, &OpKind::Solve, spec.budget).0.clone();
        let full_sol = match &full {
            Out::Ans(s) => s.clone(),
            _ => {
                r.bump("excluded.fresh_not_an_answer", 1);
                return;
            }
        };
        let (cnt_out, cnt) = memo.get(&l, &cfg0, prim.goal, &OpKind::Limited(Sched::Never), spec.budget).clone();
        if cnt_out != full {
            r.violate("limited-never-differs-from-solve", format!("solve_limited with an always-true callback answers `{}`, solve answers `{}`", fmt_out(&cnt_out), fmt_out(&full)), None);
        }
        let n = cnt.sc_calls;
        r.bump("c11.should_continue_calls_in_full_solve", n);
        let scheds: Vec<Sched> = match &spec.scheds {
            Some(s) => s.clone(),
            None => {
                let mut v = vec![];
                for k in strided(n, spec.cap.max(1)) {
                    v.push(Sched::StopAt(k));
                    v.push(Sched::From(k));
                }
                v.push(Sched::Every(2));
                v.push(Sched::Every(3));
                v.push(Sched::Always);
                let cs = *spec.params.get("coin_seed").unwrap_or(&7) as u64;
                v.push(Sched::Coin { seed: cs, pct: 30 });
                v.push(Sched::Coin { seed: cs ^ 0x55, pct: 5 });
                v
            }
        };
        if n <= spec.cap && spec.scheds.is_none() {
            r.bump("c11.goals_with_all_points_enumerated", 1);
        }
        let mut rec = Recorder::new(false);
        let mut sample_trace: Vec<String> = vec![];
        for sched in &scheds {
            let db = mk_db(&l, &spec.db);
            let mut slots = make_slots(&spec.slots);
            let kind = OpKind::Limited(sched.clone());
            let (lim, st) = run_op(&mut slots[prim.slot], &db, &g0, &kind, None, spec.budget);
            account(r, &lim, &st, &kind);
            rec.op(&cfg0, &kind, None, &lim, &st, &spec.world.goals[prim.goal]);
            r.bump("c11.schedules", 1);
            let fired = st.sc_false > 0;
            if fired {
                r.nontrivial = true;
                r.bump("c11.schedules_that_interrupted", 1);
            }
            let mut bad: Vec<(String, String)> = vec![];
            // how a deviating later answer relates to the fresh one (signature tag)
            let mut later_relation = "";
            match &lim {
                Out::Ans(ls) => {
                    if let Err(why) = cmp::safe_approximation(ls, &full_sol) {
                        if why.starts_with("UNBACKED:") {
                            // definite guidance where the full answer has none (e.g. the recursive solver's `combine` gives
                            // up on two different substitutions that an interruption happens to make equal): it is a
                            // contradiction only if it excludes a solution — the reference model decides
                            match unbacked_guidance_excludes_solution(spec, &l, prim.goal, &g0, ls) {
                                Some(detail) => bad.push(("limited-contradicts-full".into(), format!("definite guidance of the interrupted solve excludes a solution ({}): limited `{}` vs full `{}`", detail, fmt_sol(ls), fmt_sol(&full_sol)))),
                                None => r.bump("c11.definite_guidance_beyond_full_answer_not_refuted_by_ref", 1),
                            }
                        } else {
                            bad.push(("limited-contradicts-full".into(), format!("{}: limited `{}` vs full `{}`", why, fmt_sol(ls), fmt_sol(&full_sol))));
                        }
                    }
                    if ls.as_ref().map(|s| s.is_ambig()).unwrap_or(false) && *ls != full_sol {
                        r.bump("c11.weaker_ambiguous_answers", 1);
                    }
                }
                Out::Budget => {
                    r.bump("excluded.step_budget_in_limited", 1);
                    continue;
                }
                other => bad.push(("limited-did-not-answer".into(), format!("interrupted solve ended with {}", fmt_out(other)))),
            }
            // follow-ups on the same solver(s)
            for (oi, op) in spec.ops.iter().enumerate().skip(1) {
                let g = match l.goals.get(op.goal).and_then(|g| g.as_ref()) {
                    Some(g) => g.clone(),
                    None => continue,
                };
                let cfg = spec.slots[op.slot].clone();
                let interrupting = matches!(&op.kind, OpKind::Limited(s) if *s != Sched::Never);
                let fresh_kind = if interrupting { OpKind::Solve } else { op.kind.clone() };
                let fresh = memo.get(&l, &cfg, op.goal, &fresh_kind, spec.budget).0.clone();
                if !fresh.is_answer() {
                    r.bump("excluded.fresh_not_an_answer", 1);
                    continue;
                }
                let (out, st2) = run_op(&mut slots[op.slot], &db, &g, &op.kind, None, spec.budget);
                account(r, &out, &st2, &op.kind);
                rec.op(&cfg, &op.kind, None, &out, &st2, &spec.world.goals[op.goal]);
                if matches!(out, Out::Budget) {
                    break;
                }
                r.bump("c11.later_ops_compared", 1);
                if interrupting {
                    match (&out, &fresh) {
                        (Out::Ans(a), Out::Ans(f)) => {
                            let approx = match cmp::safe_approximation(a, f) {
                                Err(why) if why.starts_with("UNBACKED:") => match unbacked_guidance_excludes_solution(spec, &l, op.goal, &g, a) {
                                    Some(detail) => Err(format!("definite guidance of the interrupted solve excludes a solution ({})", detail)),
                                    None => {
                                        r.bump("c11.definite_guidance_beyond_full_answer_not_refuted_by_ref", 1);
                                        Ok(())
                                    }
                                },
                                other => other,
                            };
                            if let Err(why) = approx {
                                // control: the same history without any interruption; if it already gives this very
                                // answer, the deviation is history dependence (C10's subject), not the interruption
                                let control = {
                                    let dbc = mk_db(&l, &spec.db);
                                    let mut sc = make_slots(&spec.slots);
                                    let mut last = None;
                                    for (ci, cop) in spec.ops.iter().enumerate().take(oi + 1) {
                                        let cg = match l.goals.get(cop.goal).and_then(|g| g.as_ref()) {
                                            Some(g) => g.clone(),
                                            None => continue,
                                        };
                                        let ck = match &cop.kind {
                                            OpKind::Limited(_) => OpKind::Limited(Sched::Never),
                                            k => k.clone(),
                                        };
                                        let (o, _) = run_op(&mut sc[cop.slot], &dbc, &cg, &ck, None, spec.budget);
                                        if ci == oi {
                                            last = Some(o);
                                        }
                                    }
                                    last
                                };
                                if control.as_ref() == Some(&out) {
                                    r.bump("c11.deviation_also_without_interruption_attributed_to_history", 1);
                                    break;
                                }
                                bad.push(("later-limited-contradicts-full".into(), format!("follow-up #{} {:?} on `{}`: {}: `{}` vs fresh `{}`", oi, op.kind, spec.world.goals[op.goal], why, fmt_sol(a), fmt_sol(f))));
                            }
                        }
                        (o, _) => bad.push(("later-op-did-not-answer".into(), format!("follow-up #{} ended with {}", oi, fmt_out(o)))),
                    }
                } else if out != fresh {
                    // control: the same history WITHOUT any interruption. If it deviates from a fresh solver in the
                    // same way, the interruption is not the cause (history dependence is C10's subject).
                    let control = {
                        let dbc = mk_db(&l, &spec.db);
                        let mut sc = make_slots(&spec.slots);
                        let mut last = None;
                        for (ci, cop) in spec.ops.iter().enumerate().take(oi + 1) {
                            let cg = match l.goals.get(cop.goal).and_then(|g| g.as_ref()) {
                                Some(g) => g.clone(),
                                None => continue,
                            };
                            let ck = match &cop.kind {
                                OpKind::Limited(_) => OpKind::Limited(Sched::Never),
                                k => k.clone(),
                            };
                            let (o, _) = run_op(&mut sc[cop.slot], &dbc, &cg, &ck, None, spec.budget);
                            if ci == oi {
                                last = Some(o);
                            }
                        }
                        last
                    };
                    if control.as_ref() == Some(&out) {
                        r.bump("c11.deviation_also_without_interruption_attributed_to_history", 1);
                        break;
                    }
                    if let (Out::Ans(a), Out::Ans(f)) = (&out, &fresh) {
                        let amb = |s: &Sol| s.as_ref().map(|x| x.is_ambig()).unwrap_or(false);
                        if (amb(a) || amb(f)) && cmp::contradiction(a, f).is_none() {
                            later_relation = if amb(a) && amb(f) { "+guidance-differs" } else { "+unique-vs-ambig" };
                        }
                    }
                    if let (Out::Bool(_), Out::Bool(_)) = (&out, &fresh) {
                        // has_unique_solution differs: one state sees a unique answer where the other sees several / none
                        later_relation = "+unique-vs-ambig";
                    }
                    bad.push((
                        "later-differs-from-fresh".into(),
                        format!("follow-up #{} {} {:?} on `{}` after {:?}: `{}` but a fresh solver answers `{}`", oi, cfg.name(), op.kind, spec.world.goals[op.goal], sched, fmt_out(&out), fmt_out(&fresh)),
                    ));
                    break;
                }
            }
            if !bad.is_empty() && sample_trace.is_empty() {
                sample_trace = bad.iter().map(|(_, d)| d.clone()).collect();
            }
            for (class, detail) in bad {
                // record each class once per run, with the schedule that produced it
                if !r.violations.iter().any(|v| v.class == class) {
                    let mut v = crate::run::Violation { class: class.clone(), detail: format!("schedule {:?}: {}", sched, detail), sig: None };
                    v.sig = Some(format!("{}:{}{}{}", cfg0.kind(), class, static_tags(&spec.world, prim.goal), if class == "later-differs-from-fresh" { later_relation } else { "" }));
                    r.violations.push(v);
                    // remember the offending schedule for the replay spec
                    if r.pin.is_none() {
                        r.pin = Some(serde_json::json!({ "scheds": [sched] }));
                    }
                }
                r.bump(&format!("c11.bad.{}", class), 1);
            }
        }
        r.bump("sim.fresh_solves", memo.computed);
        r.shape = rec.shape.0;
        r.log = rec.log.0;
        if r.idx % 61 == 0 {
            r.sample = Some(serde_json::json!({"world": spec.world.source, "program": spec.world.program_text().chars().take(500).collect::<String>(), "goal": spec.world.goals[prim.goal], "solver": cfg0.name(), "should_continue_calls": n, "schedules_run": scheds.len(), "followups": spec.ops.iter().skip(1).map(|o| format!("{:?} slot{} `{}`", o.kind, o.slot, spec.world.goals[o.goal])).collect::<Vec<_>>()}));
        }
    });
}
