//! Check registry: per property id, how many runs a tier has, how a run is generated from its seed,
//! how it is executed and judged.

pub use crate::cmp;
pub use crate::exec::*;
pub use crate::rng::Rng;
pub use crate::run::{CheckMeta, RunResult};
pub use crate::simdb::SimDb;
pub use crate::ssim::*;
pub use crate::wgen;
pub use crate::world::{Corpus, World};
use serde_json::Value;
use std::sync::OnceLock;

pub mod c03;
pub mod c09;
pub mod c10;
pub mod c11;
pub mod c12;
pub mod infer;
pub mod c23;
pub mod c27;
pub mod refmon;
pub mod pairs;
pub mod order;

/// indices of the W-corpus entries that lie inside the C01 fragment (decided by the fragment parser)
pub fn fragment_entries() -> &'static Vec<usize> {
    static F: OnceLock<Vec<usize>> = OnceLock::new();
    F.get_or_init(|| {
        let c = corpus();
        (0..c.entries.len()).filter(|&i| wgen::in_fragment(&c.world(i))).collect()
    })
}

pub fn corpus() -> &'static Corpus {
    static C: OnceLock<Corpus> = OnceLock::new();
    C.get_or_init(Corpus::load)
}

/// Draw the world of a run: W-gen with probability `wgen_pct`, else the W-corpus entry selected by the
/// run index (entries without goals are skipped deterministically).
pub fn pick_world(rng: &mut Rng, base: u64, idx: u64, wgen_pct: u32, profile: wgen::Profile) -> World {
    if wgen::available() && rng.coin(wgen_pct) {
        // a share of every generated workload are small dense propositional programs (cycles whose head fails ...)
        // a share of every generated workload: Cyc (30 %), and Enum (goals with unknowns and several answers, planted
        // Lattice / Chain / Grow templates) for the default profiles
        let p = if profile != wgen::Profile::Wild && rng.coin(30) {
            wgen::Profile::Cyc
        } else if (profile == wgen::Profile::Any || profile == wgen::Profile::Fragment) && rng.coin(25) {
            wgen::Profile::Enum
        } else {
            profile
        };
        return wgen::gen_world(rng, p);
    }
    let c = corpus();
    if profile == wgen::Profile::Fragment {
        let list = fragment_entries();
        if list.is_empty() {
            return wgen::gen_world(rng, profile);
        }
        let mut order: Vec<usize> = list.clone();
        Rng::new(base ^ 0xF4A6).shuffle(&mut order);
        return c.world(order[(idx as usize) % order.len()]);
    }
    let mut k = idx;
    loop {
        let e = corpus_pick(c, base ^ 0xC0_4B05, k);
        let w = c.world(e);
        if !w.goals.is_empty() {
            return w;
        }
        k += 7919;
    }
}

/// goals of the world that are not tagged (for any of `kinds`) as hanging / aborting / panicking on the unchanged tree
pub fn usable_goals(world: &World, kinds: &[&str]) -> Vec<usize> {
    match entry_of(world) {
        Some(e) => goal_indices_ok(Some((corpus(), e)), world, kinds),
        None => goal_indices_ok(None, world, kinds),
    }
}

/// checks that do not drive the solvers (no solver probes in their evidence)
pub const NO_SOLVER_PROBES: &[&str] = &["C14", "C15", "C27"];

pub const ALL: &[&str] = &["C01", "C02", "C03", "C04", "C05", "C06", "C09", "C10", "C11", "C12", "C13", "C14", "C15", "C18", "C23", "C27", "C28"];

pub fn meta(check: &str) -> CheckMeta {
    match check {
        "C14" | "C15" => infer::meta(check),
        "C27" => c27::meta(),
        "C01" => refmon::meta(refmon::Mode::C01),
        "C02" => refmon::meta(refmon::Mode::C02),
        "C05" => refmon::meta(refmon::Mode::C05),
        "C06" => refmon::meta(refmon::Mode::C06),
        "C04" => pairs::meta(pairs::Mode::C04),
        "C28" => pairs::meta(pairs::Mode::C28),
        "C13" => order::meta(order::Mode::C13),
        "C18" => order::meta(order::Mode::C18),
        "C03" => c03::meta(),
        "C09" => c09::meta(),
        "C23" => c23::meta(),
        "C10" => c10::meta(),
        "C11" => c11::meta(),
        "C12" => c12::meta(),
        _ => panic!("unknown check {}", check),
    }
}

pub fn n_runs(check: &str, tier: &str) -> u64 {
    match check {
        "C14" | "C15" => infer::n_runs(tier),
        "C27" => c27::n_runs(tier),
        "C01" => refmon::n_runs(refmon::Mode::C01, tier),
        "C02" => refmon::n_runs(refmon::Mode::C02, tier),
        "C05" => refmon::n_runs(refmon::Mode::C05, tier),
        "C06" => refmon::n_runs(refmon::Mode::C06, tier),
        "C04" => pairs::n_runs(pairs::Mode::C04, tier),
        "C28" => pairs::n_runs(pairs::Mode::C28, tier),
        "C13" => order::n_runs(order::Mode::C13, tier),
        "C18" => order::n_runs(order::Mode::C18, tier),
        "C03" => c03::n_runs(tier),
        "C09" => c09::n_runs(tier),
        "C23" => c23::n_runs(tier),
        "C10" => c10::n_runs(tier),
        "C11" => c11::n_runs(tier),
        "C12" => c12::n_runs(tier),
        _ => panic!("unknown check {}", check),
    }
}

/// per-run wall-clock guard in seconds (harness safety net only)
pub fn timeout_s(check: &str, tier: &str) -> u64 {
    match check {
        "C27" => 1500,
        "C14" | "C15" => 5,
        "C09" => if tier == "quick" { 10 } else { 30 },
        "C05" => 5,
        _ => 15,
    }
}

pub fn gen(check: &str, tier: &str, seed: u64, idx: u64, base: u64) -> Value {
    if check == "C14" || check == "C15" {
        return serde_json::to_value(infer::gen(check, seed)).unwrap();
    }
    if check == "C27" {
        return c27::gen(tier, idx);
    }
    let spec = match check {
        "C01" => refmon::gen(refmon::Mode::C01, tier, seed, idx, base),
        "C02" => refmon::gen(refmon::Mode::C02, tier, seed, idx, base),
        "C05" => refmon::gen(refmon::Mode::C05, tier, seed, idx, base),
        "C06" => refmon::gen(refmon::Mode::C06, tier, seed, idx, base),
        "C04" => pairs::gen(pairs::Mode::C04, tier, seed, idx, base),
        "C28" => pairs::gen(pairs::Mode::C28, tier, seed, idx, base),
        "C13" => order::gen(order::Mode::C13, tier, seed, idx, base),
        "C18" => order::gen(order::Mode::C18, tier, seed, idx, base),
        "C03" => c03::gen(tier, seed, idx, base),
        "C09" => c09::gen(tier, seed, idx, base),
        "C23" => c23::gen(tier, seed, idx, base),
        "C10" => c10::gen(tier, seed, idx, base),
        "C11" => c11::gen(tier, seed, idx, base),
        "C12" => c12::gen(tier, seed, idx, base),
        _ => panic!("unknown check {}", check),
    };
    serde_json::to_value(spec).unwrap()
}

pub fn timeouts_are_violations(check: &str) -> bool {
    check == "C09"
}

/// signature of a run that did not terminate, computed from its (re-generated) spec
pub fn timeout_sig(check: &str, spec: &Value) -> Option<String> {
    if check != "C09" {
        return None;
    }
    let s: Spec = serde_json::from_value(spec.clone()).ok()?;
    if s.ops.is_empty() {
        return None;
    }
    Some(c09::static_sig(&s, "did-not-terminate"))
}

/// corpus triage pseudo-check: how does one (entry, goal, solver kind) behave in isolation?
fn exec_triage(spec: &Value, r: &mut RunResult) {
    let c = corpus();
    let (e, gi) = (spec["entry"].as_u64().unwrap_or(0) as usize, spec["goal"].as_u64().unwrap() as usize);
    let kind = spec["kind"].as_str().unwrap();
    let cfg = match kind {
        "slg" => SlotCfg::slg(),
        "rec" => SlotCfg::rec(),
        _ => SlotCfg::rec_nocache(),
    };
    let w = if let Some(wv) = spec.get("world") { serde_json::from_value::<World>(wv.clone()).unwrap() } else { c.world(e) };
    let mut l = match lower(&w) {
        Ok(l) => l,
        Err(_) => {
            r.outcome = "invalid-world".into();
            return;
        }
    };
    let p = l.p.clone();
    with_program(&p, || {
        lower_goals(&mut l, &w);
        if l.goals[gi].is_none() {
            r.violate("unlowerable", String::new(), None);
            return;
        }
        let mut memo = FreshMemo::new();
        let out = memo.get(&l, &cfg, gi, &OpKind::Solve, crate::simdb::DEFAULT_BUDGET).0.clone();
        r.sample = Some(serde_json::json!(fmt_out(&out)));
        match out {
            Out::Budget => r.violate("budget", String::new(), None),
            Out::Panic(m) => r.violate(&format!("panic:{}", m.chars().take(80).collect::<String>()), String::new(), None),
            _ => {}
        }
    });
}

pub fn exec(check: &str, spec: &Value, r: &mut RunResult) {
    if check == "TRIAGE" {
        return exec_triage(spec, r);
    }
    if check == "C14" || check == "C15" {
        return infer::exec(check, spec, r);
    }
    if check == "C27" {
        return c27::exec(spec, r);
    }
    let spec: Spec = match serde_json::from_value(spec.clone()) {
        Ok(s) => s,
        Err(e) => {
            r.outcome = format!("harness-panic: bad spec: {}", e);
            return;
        }
    };
    match check {
        "C01" => refmon::exec(refmon::Mode::C01, &spec, r),
        "C02" => refmon::exec(refmon::Mode::C02, &spec, r),
        "C05" => refmon::exec(refmon::Mode::C05, &spec, r),
        "C06" => refmon::exec(refmon::Mode::C06, &spec, r),
        "C04" => pairs::exec(pairs::Mode::C04, &spec, r),
        "C28" => pairs::exec(pairs::Mode::C28, &spec, r),
        "C13" => order::exec(order::Mode::C13, &spec, r),
        "C18" => order::exec(order::Mode::C18, &spec, r),
        "C03" => c03::exec(&spec, r),
        "C09" => c09::exec(&spec, r),
        "C23" => c23::exec(&spec, r),
        "C10" => c10::exec(&spec, r),
        "C11" => c11::exec(&spec, r),
        "C12" => c12::exec(&spec, r),
        _ => panic!("unknown check {}", check),
    }
}

/// Candidate simplifications of a failing spec, most aggressive first (generic over solver-sim specs).
pub fn shrink_candidates(check: &str, spec: &Value) -> Vec<Value> {
    if check == "C14" || check == "C15" {
        return infer::shrink_candidates(spec);
    }
    if check == "C27" {
        return vec![];
    }
    let s: Spec = match serde_json::from_value(spec.clone()) {
        Ok(s) => s,
        Err(_) => return vec![],
    };
    let mut out: Vec<Spec> = vec![];
    // drop halves / single operations (the first op of C11/C12 is the perturbed one: keep it)
    let keep_first = check == "C11" || check == "C12";
    let lo = if keep_first { 1 } else { 0 };
    let n = s.ops.len();
    if n > lo + 1 {
        let mid = lo + (n - lo) / 2;
        let mut a = s.clone();
        a.ops.truncate(mid);
        out.push(a);
        let mut b = s.clone();
        b.ops.drain(lo..mid);
        out.push(b);
    }
    for i in (lo..n).rev() {
        let mut c = s.clone();
        c.ops.remove(i);
        out.push(c);
    }
    // drop program items
    for i in (0..s.world.items.len()).rev() {
        let mut c = s.clone();
        c.world.items.remove(i);
        out.push(c);
    }
    // drop unused slots (re-index)
    for si in (0..s.slots.len()).rev() {
        if s.slots.len() > 1 && !s.ops.iter().any(|o| o.slot == si) {
            let mut c = s.clone();
            c.slots.remove(si);
            for o in c.ops.iter_mut() {
                if o.slot > si {
                    o.slot -= 1;
                }
            }
            out.push(c);
        }
    }
    // drop unused goals (re-index)
    for gi in (0..s.world.goals.len()).rev() {
        if !s.ops.iter().any(|o| o.goal == gi) {
            let mut c = s.clone();
            c.world.goals.remove(gi);
            for o in c.ops.iter_mut() {
                if o.goal > gi {
                    o.goal -= 1;
                }
            }
            out.push(c);
        }
    }
    // simplify operation kinds
    for i in 0..n {
        if i >= lo && s.ops[i].kind != OpKind::Solve {
            let mut c = s.clone();
            c.ops[i].kind = OpKind::Solve;
            out.push(c);
        }
        if s.ops[i].fault.is_some() && i >= lo {
            let mut c = s.clone();
            c.ops[i].fault = None;
            out.push(c);
        }
    }
    // plainer database behaviour
    if s.db.perm_seed.is_some() {
        let mut c = s.clone();
        c.db.perm_seed = None;
        out.push(c);
    }
    if s.db.superset {
        let mut c = s.clone();
        c.db.superset = false;
        out.push(c);
    }
    // fewer / earlier perturbation points
    if let Some(p) = &s.points {
        if p.len() > 1 {
            for x in p {
                let mut c = s.clone();
                c.points = Some(vec![*x]);
                out.push(c);
            }
        }
    }
    // earlier perturbation points
    if let Some(p) = &s.points {
        if p.len() == 1 && p[0] > 1 {
            for x in [1, p[0] / 2, p[0] - 1] {
                if x >= 1 && x < p[0] {
                    let mut c = s.clone();
                    c.points = Some(vec![x]);
                    out.push(c);
                }
            }
        }
    }
    if let Some(p) = &s.scheds {
        if p.len() == 1 {
            let smaller = |k: u64| -> Vec<u64> { [1, k / 2, k.saturating_sub(1)].iter().cloned().filter(|x| *x >= 1 && *x < k).collect() };
            let alts: Vec<Sched> = match &p[0] {
                Sched::StopAt(k) => smaller(*k).into_iter().map(Sched::StopAt).collect(),
                Sched::From(k) => smaller(*k).into_iter().map(Sched::From).chain(std::iter::once(Sched::StopAt(*k))).collect(),
                Sched::Coin { .. } | Sched::Every(_) => vec![Sched::Always],
                _ => vec![],
            };
            for a in alts {
                let mut c = s.clone();
                c.scheds = Some(vec![a]);
                out.push(c);
            }
        }
    }
    if let Some(p) = &s.scheds {
        if p.len() > 1 {
            for x in p {
                let mut c = s.clone();
                c.scheds = Some(vec![x.clone()]);
                out.push(c);
            }
        }
    }
    out.into_iter().map(|c| serde_json::to_value(c).unwrap()).collect()
}
