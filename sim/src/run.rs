//! Run results, worker protocol, supervisor (process isolation, wall-clock guard), evidence,
//! replay files, minimisation driver and known-finding matching.

use serde::{Deserialize, Serialize};
use serde_json::{json, Value};
use std::collections::{BTreeMap, BTreeSet, VecDeque};
use std::io::{BufRead, BufReader, Write};
use std::process::{Child, Command, Stdio};
use std::sync::mpsc::{channel, Receiver, RecvTimeoutError};
use std::sync::{Arc, Mutex};
use std::time::{Duration, Instant};

#[derive(Serialize, Deserialize, Clone, Debug, Default, PartialEq)]
pub struct Violation {
    /// stable class of the violation (what the minimiser preserves)
    pub class: String,
    pub detail: String,
    /// signature of a defect family, evaluated by the check from data it has (see known_findings.json)
    pub sig: Option<String>,
}

#[derive(Serialize, Deserialize, Clone, Debug, Default)]
pub struct RunResult {
    pub idx: u64,
    pub seed: u64,
    /// "ok" | "invalid-world" | "timeout" | "abort(..)" | "harness-panic: .."
    pub outcome: String,
    pub violations: Vec<Violation>,
    pub stats: BTreeMap<String, u64>,
    /// hash of the event-log shape (ops, outcome classes, fault kinds) — the "distinct interleavings" measure
    pub shape: u64,
    /// hash of the full event log (every DB call, every answer) — the determinism witness
    pub log: u64,
    pub nontrivial: bool,
    pub sample: Option<Value>,
    pub spec: Option<Value>,
    /// keys to override in the spec so that the replay file pins the exact perturbation that failed
    #[serde(default)]
    pub pin: Option<Value>,
}

impl RunResult {
    pub fn new(idx: u64, seed: u64) -> RunResult {
        RunResult { idx, seed, outcome: "ok".into(), ..Default::default() }
    }
    pub fn bump(&mut self, k: &str, n: u64) {
        if n > 0 {
            *self.stats.entry(k.to_string()).or_insert(0) += n;
        } else {
            self.stats.entry(k.to_string()).or_insert(0);
        }
    }
    pub fn violate(&mut self, class: &str, detail: String, sig: Option<&str>) {
        self.violations.push(Violation { class: class.to_string(), detail, sig: sig.map(|s| s.to_string()) });
    }
}

// ------------------------------------------------------------------ supervisor

struct Worker {
    child: Child,
    rx: Receiver<String>,
}

fn spawn_worker() -> Worker {
    let exe = std::env::current_exe().expect("current_exe");
    let mut child = Command::new(exe)
        .arg("worker")
        .stdin(Stdio::piped())
        .stdout(Stdio::piped())
        .stderr(Stdio::null())
        .spawn()
        .expect("spawn worker");
    let out = child.stdout.take().unwrap();
    let (tx, rx) = channel();
    std::thread::spawn(move || {
        let r = BufReader::new(out);
        for line in r.lines() {
            match line {
                Ok(l) => {
                    if tx.send(l).is_err() {
                        break;
                    }
                }
                Err(_) => break,
            }
        }
    });
    Worker { child, rx }
}

fn kill_worker(w: &mut Worker) -> String {
    let _ = w.child.kill();
    match w.child.wait() {
        Ok(st) => {
            use std::os::unix::process::ExitStatusExt;
            if let Some(sig) = st.signal() {
                format!("signal {}", sig)
            } else {
                format!("exit {:?}", st.code())
            }
        }
        Err(_) => "unknown".into(),
    }
}

/// Run every request on a pool of isolated worker processes. Results are returned in request order.
/// A request that exceeds `timeout` gets outcome "timeout" (worker killed and replaced); a worker that
/// dies (stack overflow, abort) gives outcome "abort(..)" for exactly the request it was running.
pub fn run_requests(reqs: Vec<Value>, jobs: usize, timeout: Duration) -> Vec<RunResult> {
    let n = reqs.len();
    let queue: Arc<Mutex<VecDeque<(usize, Value)>>> = Arc::new(Mutex::new(reqs.into_iter().enumerate().collect()));
    let results: Arc<Mutex<Vec<Option<RunResult>>>> = Arc::new(Mutex::new((0..n).map(|_| None).collect()));
    let jobs = jobs.max(1).min(n.max(1));
    let mut handles = vec![];
    for _ in 0..jobs {
        let queue = queue.clone();
        let results = results.clone();
        handles.push(std::thread::spawn(move || {
            let mut w: Option<Worker> = None;
            loop {
                let item = queue.lock().unwrap().pop_front();
                let (pos, req) = match item {
                    Some(x) => x,
                    None => break,
                };
                if w.is_none() {
                    w = Some(spawn_worker());
                }
                let idx = req.get("idx").and_then(|v| v.as_u64()).unwrap_or(pos as u64);
                let line = serde_json::to_string(&req).unwrap();
                let mut failed: Option<String> = None;
                {
                    let wk = w.as_mut().unwrap();
                    let stdin = wk.child.stdin.as_mut().unwrap();
                    if writeln!(stdin, "{}", line).is_err() || stdin.flush().is_err() {
                        failed = Some("abort(write failed)".into());
                    }
                }
                let mut res: Option<RunResult> = None;
                if failed.is_none() {
                    let wk = w.as_mut().unwrap();
                    match wk.rx.recv_timeout(timeout) {
                        Ok(l) => match serde_json::from_str::<RunResult>(&l) {
                            Ok(r) => res = Some(r),
                            Err(e) => failed = Some(format!("harness-panic: bad worker reply: {} :: {}", e, l.chars().take(200).collect::<String>())),
                        },
                        Err(RecvTimeoutError::Timeout) => failed = Some("timeout".into()),
                        Err(RecvTimeoutError::Disconnected) => failed = Some("abort".into()),
                    }
                }
                if let Some(f) = failed {
                    let mut wk = w.take().unwrap();
                    let how = kill_worker(&mut wk);
                    let outcome = if f == "abort" { format!("abort({})", how) } else { f };
                    let mut r = RunResult::new(idx, 0);
                    r.outcome = outcome;
                    r.spec = Some(req.clone());
                    res = Some(r);
                }
                results.lock().unwrap()[pos] = res;
            }
            if let Some(mut wk) = w {
                drop(wk.child.stdin.take());
                let _ = wk.child.wait();
            }
        }));
    }
    for h in handles {
        let _ = h.join();
    }
    let mut out = vec![];
    for r in results.lock().unwrap().iter_mut() {
        out.push(r.take().unwrap_or_else(|| {
            let mut x = RunResult::new(0, 0);
            x.outcome = "harness-panic: supervisor thread died before this request was run".into();
            x
        }));
    }
    out
}

// ------------------------------------------------------------------ known findings

#[derive(Deserialize, Clone, Debug)]
pub struct Finding {
    pub id: String,
    /// one property id or a comma-separated list of ids the signature applies to
    pub property: String,
    /// "open" (recorded finding: suppress + print KNOWN-FINDING) or "fixed" (suppresses nothing)
    pub status: String,
    #[serde(default)]
    pub signature: String,
    pub what: String,
    #[serde(default)]
    pub commit: String,
    /// minimised replay file (relative to /verif) that reproduces the finding
    #[serde(default)]
    pub replay: String,
}

#[derive(Deserialize, Clone, Debug, Default)]
pub struct Findings {
    pub findings: Vec<Finding>,
}

pub fn load_findings() -> Findings {
    let path = format!("{}/known_findings.json", crate::world::verif_root());
    match std::fs::read_to_string(&path) {
        Ok(t) => serde_json::from_str(&t).unwrap_or_else(|e| {
            eprintln!("HARNESS-ERROR: cannot parse {}: {}", path, e);
            std::process::exit(2)
        }),
        Err(_) => Findings::default(),
    }
}

impl Findings {
    pub fn open_match(&self, property: &str, sig: &Option<String>) -> Option<&Finding> {
        let s = sig.as_ref()?;
        // signature = "<solver>:<class>+tag+tag": heads must be equal, the finding's tags a subset of the violation's
        let split = |x: &str| -> (String, Vec<String>) {
            let mut it = x.split('+');
            let head = it.next().unwrap_or("").to_string();
            (head, it.map(|t| t.to_string()).collect())
        };
        let (vh, vt) = split(s);
        self.findings.iter().find(|f| {
            if f.status != "open" || !f.property.split(',').any(|p| p.trim() == property) || f.signature.is_empty() {
                return false;
            }
            let (fh, ft) = split(&f.signature);
            fh == vh && ft.iter().all(|t| vt.contains(t))
        })
    }
}

// ------------------------------------------------------------------ aggregation / evidence

#[derive(Default)]
pub struct Agg {
    pub runs: u64,
    pub stats: BTreeMap<String, u64>,
    pub shapes_nontrivial: BTreeSet<u64>,
    pub shapes_all: BTreeSet<u64>,
    pub samples: Vec<Value>,
    pub outcomes: BTreeMap<String, u64>,
    pub log_fold: u64,
}

impl Agg {
    pub fn add(&mut self, r: &RunResult) {
        self.runs += 1;
        for (k, v) in &r.stats {
            *self.stats.entry(k.clone()).or_insert(0) += v;
        }
        self.shapes_all.insert(r.shape);
        if r.nontrivial {
            self.shapes_nontrivial.insert(r.shape);
        }
        let oc = if r.outcome.starts_with("abort") {
            "abort".to_string()
        } else if r.outcome.starts_with("harness-panic") {
            "harness-panic".to_string()
        } else {
            r.outcome.clone()
        };
        *self.outcomes.entry(oc).or_insert(0) += 1;
        if let Some(s) = &r.sample {
            if self.samples.len() < 4 {
                self.samples.push(s.clone());
            }
        }
        self.log_fold = self.log_fold.rotate_left(7) ^ r.log ^ r.idx.wrapping_mul(0x9E37_79B9_7F4A_7C15);
    }
}

pub struct CheckMeta {
    pub id: &'static str,
    pub level: &'static str,
    pub rule: &'static str,
    pub assumptions: Vec<&'static str>,
    pub real: &'static str,
    pub stubs: &'static str,
}

#[allow(clippy::too_many_arguments)]
pub fn write_evidence(
    meta: &CheckMeta,
    tier: &str,
    seed: u64,
    agg: &Agg,
    wall_s: f64,
    n_violations: usize,
    known: &BTreeMap<String, u64>,
    extra: Value,
) {
    let root = crate::world::verif_root();
    let _ = std::fs::create_dir_all(format!("{}/evidence", root));
    let zero_probes: Vec<&String> = agg.stats.iter().filter(|(k, v)| k.starts_with("probe.") && **v == 0).map(|(k, _)| k).collect();
    let faults: BTreeMap<&String, &u64> = agg.stats.iter().filter(|(k, _)| k.starts_with("fault.")).collect();
    let steps = agg.stats.get("sim.db_calls").cloned().unwrap_or(0);
    let exhaustive = extra.get("exhaustive").and_then(|v| v.as_bool()).unwrap_or(false);
    let ev = json!({
        "property_id": meta.id,
        "tier": tier,
        "seed": seed,
        "level": meta.level,
        "coverage": {
            "evaluations": agg.runs,
            "distinct_nontrivial": agg.shapes_nontrivial.len(),
            "rule": meta.rule,
            "exhaustive": exhaustive,
            "samples": agg.samples,
            "distinct_shapes_all_runs": agg.shapes_all.len(),
            "simulated_steps_db_calls": steps,
            "runs_per_hour": if wall_s > 0.0 { (agg.runs as f64 / wall_s * 3600.0) as u64 } else { 0 },
            "faults_fired": faults,
            "zero_hit_probes": zero_probes,
            "run_outcomes": agg.outcomes,
            "counters": agg.stats,
            "known_findings_matched": known,
            "components": { "real_code": meta.real, "stubs": meta.stubs },
            "event_log_fold": format!("{:016x}", agg.log_fold),
            "extra": extra,
        },
        "assumptions": meta.assumptions,
        "wall_s": wall_s,
        "violations": n_violations,
    });
    let path = format!("{}/evidence/{}.json", root, meta.id);
    std::fs::write(&path, serde_json::to_string_pretty(&ev).unwrap()).expect("write evidence");
}

pub fn elapsed_s(t: Instant) -> f64 {
    t.elapsed().as_millis() as f64 / 1000.0
}
