//! Comparison of solver answers: one-way matching of canonical substitutions (lifetimes are
//! wildcards, as the properties exclude lifetime constraints), compatibility of two answers,
//! "weaker but not contradicting", and name-based rendering for cross-program comparison.

use crate::exec::Sol;
use chalk_integration::interner::ChalkIr;
use chalk_ir::*;
use chalk_solve::{Guidance, Solution};

/// Three-valued: Some(true) matches, Some(false) certainly does not, None = shape this matcher does not decide.
type M = Option<bool>;

fn and(a: M, b: impl FnOnce() -> M) -> M {
    match a {
        Some(false) => Some(false),
        Some(true) => b(),
        None => match b() {
            Some(false) => Some(false),
            _ => None,
        },
    }
}

struct Matcher {
    /// bindings of pattern bound variables (index at INNERMOST) to target types / consts
    ty_bind: Vec<Option<Ty<ChalkIr>>>,
    const_bind: Vec<Option<Const<ChalkIr>>>,
    /// compare only (no assignable variables)
    nobind: bool,
}

impl Matcher {
    fn subst(&mut self, p: &Substitution<ChalkIr>, t: &Substitution<ChalkIr>) -> M {
        let (ps, ts) = (p.as_slice(ChalkIr), t.as_slice(ChalkIr));
        if ps.len() != ts.len() {
            return Some(false);
        }
        let mut r = Some(true);
        for (a, b) in ps.iter().zip(ts.iter()) {
            r = and(r, || self.arg(a, b));
            if r == Some(false) {
                return r;
            }
        }
        r
    }
    fn arg(&mut self, p: &GenericArg<ChalkIr>, t: &GenericArg<ChalkIr>) -> M {
        match (p.data(ChalkIr), t.data(ChalkIr)) {
            (GenericArgData::Ty(a), GenericArgData::Ty(b)) => self.ty(a, b),
            (GenericArgData::Lifetime(_), GenericArgData::Lifetime(_)) => Some(true),
            (GenericArgData::Const(a), GenericArgData::Const(b)) => self.konst(a, b),
            _ => Some(false),
        }
    }
    fn konst(&mut self, p: &Const<ChalkIr>, t: &Const<ChalkIr>) -> M {
        let pd = p.data(ChalkIr);
        if let ConstValue::BoundVar(bv) = &pd.value {
            if !self.nobind && bv.debruijn == DebruijnIndex::INNERMOST {
                let i = bv.index;
                if i >= self.const_bind.len() {
                    return None;
                }
                return match &self.const_bind[i] {
                    Some(prev) => Some(prev == t),
                    None => {
                        self.const_bind[i] = Some(t.clone());
                        Some(true)
                    }
                };
            }
        }
        Some(p == t)
    }
    fn ty(&mut self, p: &Ty<ChalkIr>, t: &Ty<ChalkIr>) -> M {
        use TyKind::*;
        if self.nobind {
            if let (BoundVar(x), BoundVar(y)) = (p.kind(ChalkIr), t.kind(ChalkIr)) {
                return Some(x == y);
            }
        }
        match (p.kind(ChalkIr), t.kind(ChalkIr)) {
            (BoundVar(bv), _) if !self.nobind && bv.debruijn == DebruijnIndex::INNERMOST => {
                let i = bv.index;
                if i >= self.ty_bind.len() {
                    return None;
                }
                match &self.ty_bind[i] {
                    Some(prev) => Some(eq_mod_lifetimes(prev, t)),
                    None => {
                        self.ty_bind[i] = Some(t.clone());
                        Some(true)
                    }
                }
            }
            (Adt(a, sa), Adt(b, sb)) => and(Some(a == b), || self.subst(sa, sb)),
            (AssociatedType(a, sa), AssociatedType(b, sb)) => and(Some(a == b), || self.subst(sa, sb)),
            (Tuple(a, sa), Tuple(b, sb)) => and(Some(a == b), || self.subst(sa, sb)),
            (OpaqueType(a, sa), OpaqueType(b, sb)) => and(Some(a == b), || self.subst(sa, sb)),
            (FnDef(a, sa), FnDef(b, sb)) => and(Some(a == b), || self.subst(sa, sb)),
            (Closure(a, sa), Closure(b, sb)) => and(Some(a == b), || self.subst(sa, sb)),
            (Coroutine(a, sa), Coroutine(b, sb)) => and(Some(a == b), || self.subst(sa, sb)),
            (CoroutineWitness(a, sa), CoroutineWitness(b, sb)) => and(Some(a == b), || self.subst(sa, sb)),
            (Scalar(a), Scalar(b)) => Some(a == b),
            (Str, Str) | (Never, Never) => Some(true),
            (Foreign(a), Foreign(b)) => Some(a == b),
            (Placeholder(a), Placeholder(b)) => Some(a == b),
            (Array(a, ca), Array(b, cb)) => and(self.ty(a, b), || self.konst(ca, cb)),
            (Slice(a), Slice(b)) => self.ty(a, b),
            (Raw(ma, a), Raw(mb, b)) => and(Some(ma == mb), || self.ty(a, b)),
            (Ref(ma, _, a), Ref(mb, _, b)) => and(Some(ma == mb), || self.ty(a, b)),
            (InferenceVar(..), _) | (_, InferenceVar(..)) => None,
            (Dyn(_), Dyn(_)) | (Alias(_), Alias(_)) | (Function(_), Function(_)) | (BoundVar(_), BoundVar(_)) | (Error, Error) => {
                if p == t {
                    Some(true)
                } else {
                    None
                }
            }
            // an alias in the pattern may normalise to anything
            (Alias(_), _) | (_, Alias(_)) => None,
            _ => Some(false),
        }
    }
}

/// structural equality with every lifetime treated as equal
pub fn eq_mod_lifetimes(a: &Ty<ChalkIr>, b: &Ty<ChalkIr>) -> bool {
    if a == b {
        return true;
    }
    let mut m = Matcher { ty_bind: vec![], const_bind: vec![], nobind: true };
    match m.ty(a, b) {
        Some(r) => r,
        None => false,
    }
}

/// Is `target` an instance of `pattern`? Pattern's own binders are the assignable variables; the
/// target's binders are opaque constants. Lifetimes are ignored.
pub fn instance_of(pattern: &Canonical<Substitution<ChalkIr>>, target: &Canonical<Substitution<ChalkIr>>) -> M {
    let n = pattern.binders.len(ChalkIr);
    let mut m = Matcher { ty_bind: vec![None; n], const_bind: vec![None; n], nobind: false };
    m.subst(&pattern.value, &target.value)
}

fn subst_of(s: &Solution<ChalkIr>) -> Option<Canonical<Substitution<ChalkIr>>> {
    match s {
        Solution::Unique(c) => Some(Canonical { binders: c.binders.clone(), value: c.value.subst.clone() }),
        Solution::Ambig(Guidance::Definite(c)) => Some(c.clone()),
        _ => None,
    }
}

/// Equality of two canonical substitutions up to renaming of bound variables and lifetimes.
pub fn subst_equiv(a: &Canonical<Substitution<ChalkIr>>, b: &Canonical<Substitution<ChalkIr>>) -> M {
    and(instance_of(a, b), || instance_of(b, a))
}

/// C18 on worlds with lifetimes: the same answer up to lifetime arguments and region constraints (their rendering
/// and order may legitimately differ); the kind of answer and the type-level substitution must agree.
pub fn same_modulo_lifetimes(a: &Sol, b: &Sol) -> bool {
    match (a, b) {
        (None, None) => true,
        (Some(Solution::Unique(_)), Some(Solution::Unique(_))) | (Some(Solution::Ambig(Guidance::Definite(_))), Some(Solution::Ambig(Guidance::Definite(_)))) => {
            match (subst_of(a.as_ref().unwrap()), subst_of(b.as_ref().unwrap())) {
                (Some(x), Some(y)) => subst_equiv(&x, &y) != Some(false),
                _ => false,
            }
        }
        (Some(Solution::Ambig(Guidance::Suggested(_))), Some(Solution::Ambig(Guidance::Suggested(_)))) => true,
        (Some(Solution::Ambig(Guidance::Unknown)), Some(Solution::Ambig(Guidance::Unknown))) => true,
        _ => false,
    }
}

/// C04: do two answers to the same query contradict each other?  Some(reason) if they do.
pub fn contradiction(a: &Sol, b: &Sol) -> Option<String> {
    match (a, b) {
        (None, Some(Solution::Unique(_))) | (Some(Solution::Unique(_)), None) => Some("one answer is 'No possible solution', the other 'Unique'".into()),
        (Some(x @ Solution::Unique(_)), Some(y @ Solution::Unique(_))) => {
            let (sx, sy) = (subst_of(x).unwrap(), subst_of(y).unwrap());
            if subst_equiv(&sx, &sy) == Some(false) {
                Some("two 'Unique' answers with different substitutions".into())
            } else {
                None
            }
        }
        (Some(u @ Solution::Unique(_)), Some(g @ Solution::Ambig(Guidance::Definite(_))))
        | (Some(g @ Solution::Ambig(Guidance::Definite(_))), Some(u @ Solution::Unique(_))) => {
            let (su, sg) = (subst_of(u).unwrap(), subst_of(g).unwrap());
            if instance_of(&sg, &su) == Some(false) {
                Some("'Unique' substitution is not an instance of the other answer's definite guidance".into())
            } else {
                None
            }
        }
        _ => None,
    }
}

/// C11: is `limited` the full answer or a weaker ambiguous answer that does not contradict `full`?
pub fn safe_approximation(limited: &Sol, full: &Sol) -> Result<(), String> {
    if limited == full {
        return Ok(());
    }
    match limited {
        None => Err("interrupted solve answered 'No possible solution' but the full answer differs".into()),
        Some(Solution::Unique(_)) => {
            // equal up to lifetimes is still "the full answer"
            if let (Some(l), Some(Some(f))) = (subst_of(limited.as_ref().unwrap()), Some(full.as_ref())) {
                if let (Solution::Unique(_), Some(fs)) = (f, subst_of(f)) {
                    if subst_equiv(&l, &fs) != Some(false) {
                        return Ok(());
                    }
                }
            }
            Err("interrupted solve answered 'Unique' but the full answer differs".into())
        }
        Some(Solution::Ambig(Guidance::Definite(sig))) => match full {
            None => Ok(()),
            Some(f) => match subst_of(f) {
                Some(fs) => {
                    if instance_of(sig, &fs) == Some(false) {
                        Err("definite guidance of the interrupted solve excludes the full answer".into())
                    } else {
                        Ok(())
                    }
                }
                // the full answer makes no definite claim (Suggested / Unknown guidance): definite guidance from the
                // interrupted solve would claim MORE than the full answer, unless it is the identity (claims nothing)
                None => {
                    if sig.value.is_identity_subst(ChalkIr) {
                        Ok(())
                    } else {
                        // not "weaker" than the full answer; whether it contradicts anything is for the reference
                        // model to say (C11 asks `Ref` whether the guidance excludes a solution)
                        Err("UNBACKED: interrupted solve claims definite guidance although the full answer has none".into())
                    }
                }
            },
        },
        Some(Solution::Ambig(_)) => Ok(()),
    }
}

/// Render an answer with item names (must run under `with_program` of the answer's own program);
/// region constraints are sorted so that the rendering does not depend on their order.
pub fn names_fmt(s: &Sol) -> String {
    match s {
        Some(Solution::Unique(u)) => {
            let mut cs: Vec<String> = u.value.constraints.as_slice(ChalkIr).iter().map(|c| format!("{:?}", c)).collect();
            cs.sort();
            format!("Unique; {:?} {:?} {:?}", u.binders, u.value.subst, cs)
        }
        other => crate::exec::fmt_sol(other),
    }
}

// ------------------------------------------------------------------ C28: structural well-formedness of answers

use chalk_ir::visit::{TypeSuperVisitable, TypeVisitable, TypeVisitor};
use std::ops::ControlFlow;

struct WfVisitor {
    n_binders: usize,
    universes: usize,
    problems: Vec<String>,
    kinds: Vec<u8>, // 0 ty, 1 lifetime, 2 const — of the answer's own binders
    used: Vec<usize>,
    /// parameter kinds of the binders opened inside the value on the way to the current position (`for<..> fn(..)`,
    /// `dyn` and its quantified where-clauses), outermost first; entry d belongs to the binder entered at depth d
    levels: Vec<Vec<u8>>,
}

impl WfVisitor {
    /// a bound variable used as a type (0), lifetime (1) or const (2) at binder depth `ob`
    fn bound(&mut self, bv: BoundVar, ob: DebruijnIndex, usage: u8) {
        let names = ["type", "lifetime", "const"];
        match bv.shifted_out_to(ob) {
            Some(f) => {
                if f.debruijn != DebruijnIndex::INNERMOST {
                    self.problems.push(format!("variable {:?} escapes the solution's own binders", bv));
                } else if f.index >= self.n_binders {
                    self.problems.push(format!("variable ^0.{} but the solution binds only {} variables", f.index, self.n_binders));
                } else {
                    if self.kinds[f.index] != usage {
                        self.problems.push(format!("solution variable ^0.{} is bound as a {} but used as a {}", f.index, names[self.kinds[f.index] as usize], names[usage as usize]));
                    }
                    if !self.used.contains(&f.index) {
                        self.used.push(f.index);
                    }
                }
            }
            None => {
                // captured by a binder inside the value: that binder must have such a parameter, of that kind
                let abs = (ob.depth() - 1 - bv.debruijn.depth()) as usize;
                if let Some(kinds) = self.levels.get(abs) {
                    match kinds.get(bv.index) {
                        None => self.problems.push(format!("bound variable {:?} is captured by an inner binder that has only {} parameter(s): no binder binds it", bv, kinds.len())),
                        Some(k) if *k != usage => self.problems.push(format!("bound variable {:?} is captured by an inner binder whose parameter is a {} but it is used as a {}", bv, names[*k as usize], names[usage as usize])),
                        _ => {}
                    }
                }
            }
        }
    }
}

impl TypeVisitor<ChalkIr> for WfVisitor {
    type BreakTy = ();
    fn as_dyn(&mut self) -> &mut dyn TypeVisitor<ChalkIr, BreakTy = ()> {
        self
    }
    fn visit_ty(&mut self, ty: &Ty<ChalkIr>, ob: DebruijnIndex) -> ControlFlow<()> {
        match ty.kind(ChalkIr) {
            TyKind::BoundVar(bv) => {
                self.bound(*bv, ob, 0);
                ControlFlow::Continue(())
            }
            TyKind::Function(f) => {
                let d = ob.depth() as usize;
                self.levels.truncate(d);
                self.levels.push(vec![1u8; f.num_binders]);
                let r = ty.super_visit_with(self.as_dyn(), ob);
                self.levels.truncate(d);
                r
            }
            TyKind::Dyn(dy) => {
                let d = ob.depth() as usize;
                dy.lifetime.visit_with(self.as_dyn(), ob)?;
                self.levels.truncate(d);
                self.levels.push(dy.bounds.binders.iter(ChalkIr).map(kind_code).collect());
                for qwc in dy.bounds.skip_binders().iter(ChalkIr) {
                    self.levels.truncate(d + 1);
                    self.levels.push(qwc.binders.iter(ChalkIr).map(kind_code).collect());
                    qwc.skip_binders().visit_with(self.as_dyn(), ob.shifted_in().shifted_in())?;
                }
                self.levels.truncate(d);
                ControlFlow::Continue(())
            }
            _ => ty.super_visit_with(self.as_dyn(), ob),
        }
    }
    fn visit_lifetime(&mut self, lt: &Lifetime<ChalkIr>, ob: DebruijnIndex) -> ControlFlow<()> {
        match lt.data(ChalkIr) {
            LifetimeData::BoundVar(bv) => {
                self.bound(*bv, ob, 1);
                ControlFlow::Continue(())
            }
            _ => lt.super_visit_with(self.as_dyn(), ob),
        }
    }
    fn visit_const(&mut self, c: &Const<ChalkIr>, ob: DebruijnIndex) -> ControlFlow<()> {
        match &c.data(ChalkIr).value {
            ConstValue::BoundVar(bv) => {
                self.bound(*bv, ob, 2);
                ControlFlow::Continue(())
            }
            _ => c.super_visit_with(self.as_dyn(), ob),
        }
    }
    fn visit_free_var(&mut self, bv: BoundVar, outer_binder: DebruijnIndex) -> ControlFlow<()> {
        match bv.shifted_out_to(outer_binder) {
            Some(f) => {
                if f.debruijn != DebruijnIndex::INNERMOST {
                    self.problems.push(format!("variable {:?} escapes the solution's own binders", bv));
                } else if f.index >= self.n_binders {
                    self.problems.push(format!("variable ^0.{} but the solution binds only {} variables", f.index, self.n_binders));
                } else if !self.used.contains(&f.index) {
                    self.used.push(f.index);
                }
            }
            None => {}
        }
        ControlFlow::Continue(())
    }
    fn visit_free_placeholder(&mut self, p: PlaceholderIndex, _o: DebruijnIndex) -> ControlFlow<()> {
        if p.ui.counter >= self.universes {
            self.problems.push(format!("placeholder {:?} lives in a universe the query cannot name (query has {})", p, self.universes));
        }
        ControlFlow::Continue(())
    }
    fn visit_inference_var(&mut self, v: InferenceVar, _o: DebruijnIndex) -> ControlFlow<()> {
        self.problems.push(format!("inference variable {:?} leaked into the solution", v));
        ControlFlow::Continue(())
    }
    fn interner(&self) -> ChalkIr {
        ChalkIr
    }
}

fn kind_code(k: &VariableKind<ChalkIr>) -> u8 {
    match k {
        VariableKind::Ty(_) => 0,
        VariableKind::Lifetime => 1,
        VariableKind::Const(_) => 2,
    }
}

/// Check one substitution (with its binders) against the query it answers.
pub fn wellformed_subst(g: &crate::exec::G, binders: &CanonicalVarKinds<ChalkIr>, subst: &Substitution<ChalkIr>, constraints: Option<&Constraints<ChalkIr>>) -> Vec<String> {
    let mut problems = vec![];
    let qb = &g.canonical.binders;
    if subst.len(ChalkIr) != qb.len(ChalkIr) {
        problems.push(format!("substitution has {} entries, the query has {} unknowns", subst.len(ChalkIr), qb.len(ChalkIr)));
        return problems;
    }
    for (i, (k, a)) in qb.iter(ChalkIr).zip(subst.iter(ChalkIr)).enumerate() {
        let want = kind_code(&k.kind);
        let got = match a.data(ChalkIr) {
            GenericArgData::Ty(_) => 0,
            GenericArgData::Lifetime(_) => 1,
            GenericArgData::Const(_) => 2,
        };
        if want != got {
            problems.push(format!("entry {} has kind {} but the query's unknown has kind {}", i, got, want));
        }
    }
    let mut v = WfVisitor { n_binders: binders.len(ChalkIr), universes: g.universes, problems: vec![], kinds: binders.iter(ChalkIr).map(|b| kind_code(&b.kind)).collect(), used: vec![], levels: vec![] };
    let _ = subst.visit_with(&mut v, DebruijnIndex::INNERMOST);
    // binders that the substitution actually uses must live in universes the query can name
    let used = std::mem::take(&mut v.used);
    for (i, b) in binders.iter(ChalkIr).enumerate() {
        if used.contains(&i) && b.skip_kind().counter >= g.universes {
            problems.push(format!("solution variable ^0.{} (used by the substitution) is in universe {} but the query has only {}", i, b.skip_kind().counter, g.universes));
        }
    }
    if let Some(c) = constraints {
        // region constraints may name placeholders of universes opened while solving (higher-ranked
        // types); the property bounds the universes of the *substitution* only
        v.universes = usize::MAX;
        let _ = c.visit_with(&mut v, DebruijnIndex::INNERMOST);
    }
    let _ = &v.kinds;
    problems.extend(v.problems);
    if problems.is_empty() {
        // applying the substitution to the query must not fail
        let q = g.canonical.value.clone();
        let s = subst.clone();
        let r = std::panic::catch_unwind(std::panic::AssertUnwindSafe(move || {
            let _ = s.apply(q, ChalkIr);
        }));
        if let Err(e) = r {
            problems.push(format!("applying the substitution to the query panicked: {}", crate::exec::panic_msg(&e)));
        }
    }
    problems
}

pub fn wellformed_solution(g: &crate::exec::G, s: &Solution<ChalkIr>) -> Vec<String> {
    match s {
        Solution::Unique(c) => wellformed_subst(g, &c.binders, &c.value.subst, Some(&c.value.constraints)),
        Solution::Ambig(Guidance::Definite(c)) | Solution::Ambig(Guidance::Suggested(c)) => wellformed_subst(g, &c.binders, &c.value, None),
        Solution::Ambig(Guidance::Unknown) => vec![],
    }
}
