//! Judging solver answers against `Ref` (C01, C02, C03, C05, C06).

use crate::exec::{Sol, G};
use crate::reference::*;
use crate::wgen::{match_ty, Goal, Prog};
use crate::wgen::Ty as FTy;
use chalk_integration::interner::ChalkIr;
use chalk_integration::program::Program;
use chalk_ir::{DebruijnIndex, Ty, TyKind};
use chalk_solve::{Guidance, RustIrDatabase, Solution};
use std::collections::BTreeMap;

#[derive(Clone, Debug, PartialEq)]
pub enum Verdict {
    /// `Ref` could not decide (budget, mixed cycle, nested exists, unsupported answer shape)
    Undecided(String),
    Agree,
    /// the answer contradicts the logical meaning (C01)
    Contradiction { class: String, detail: String },
    /// a closed goal got an ambiguous answer although `Ref` decides it (C02)
    AmbiguousClosed { ref_true: bool },
}

#[derive(Clone, Debug, Default)]
pub struct Facts {
    pub closed: bool,
    pub co_cycle_max_len: usize,
    pub closure_cycle: bool,
    pub max_size: usize,
    pub max_depth: usize,
    pub used_env: bool,
    pub used_auto_fields: bool,
    pub used_negative_impl: bool,
    pub ind_cycle_hits: u64,
    pub ref_steps: u64,
    pub exists_solutions: usize,
}

/// chalk type -> fragment type; bound variables of the answer become pattern variables "^i"
pub fn conv_ty(t: &Ty<ChalkIr>, program: &Program) -> Option<FTy> {
    match t.kind(ChalkIr) {
        TyKind::Adt(id, s) => {
            let name = program.adt_name(*id);
            let mut args = vec![];
            for a in s.iter(ChalkIr) {
                args.push(conv_ty(a.ty(ChalkIr)?, program)?);
            }
            Some(FTy::Adt(name, args))
        }
        TyKind::BoundVar(bv) if bv.debruijn == DebruijnIndex::INNERMOST => Some(FTy::Var(format!("^{}", bv.index))),
        _ => None,
    }
}

fn answer_subst(sol: &Solution<ChalkIr>, program: &Program) -> Option<Vec<FTy>> {
    let s = match sol {
        Solution::Unique(c) => c.value.subst.clone(),
        Solution::Ambig(Guidance::Definite(c)) => c.value.clone(),
        _ => return None,
    };
    let mut out = vec![];
    for a in s.iter(ChalkIr) {
        out.push(conv_ty(a.ty(ChalkIr)?, program)?);
    }
    Some(out)
}

/// Witness check for `exists<X..> { body }`: if the answer is `Unique` with a GROUND substitution, evaluate the body
/// under exactly that assignment. Some(true): the goal is true (the witness holds); Some(false): the witness is refuted;
/// None: not applicable / undecided. Independent of the bounded universe (the witness may be deeper than it).
pub fn witness_holds(prog: &Prog, goal: &Goal, program: &Program, sol: &Sol, budget: u64) -> Option<bool> {
    let (vars, body) = match goal {
        Goal::Exists(v, b) if !b.has_exists() => (v, b),
        _ => return None,
    };
    let s = match sol {
        Some(s @ Solution::Unique(_)) => s,
        _ => return None,
    };
    let sigma = answer_subst(s, program)?;
    if sigma.iter().any(|t| t.has_var()) {
        return None;
    }
    let (_, occ) = first_occurrence_order(goal)?;
    if occ.len() != sigma.len() {
        return None;
    }
    let mut m = BTreeMap::new();
    for (v, t) in occ.iter().zip(sigma.iter()) {
        m.insert(v.clone(), t.clone());
    }
    if vars.iter().any(|v| !m.contains_key(v)) {
        return None;
    }
    let mut rf = crate::reference::Ref::new(prog, budget);
    match rf.goal(body, &std::collections::BTreeSet::new(), &m, &mut 0) {
        Ok(Tv::T) => Some(true),
        Ok(Tv::F) => Some(false),
        _ => None,
    }
}

pub fn judge(prog: &Prog, goal: &Goal, program: &Program, g: &G, sol: &Sol, budget: u64) -> (Verdict, Facts) {
    let mut facts = Facts::default();
    if !goal.has_exists() {
        facts.closed = true;
        let (v, r) = eval_closed(prog, goal, budget);
        facts.co_cycle_max_len = r.co_cycle_max_len;
        facts.closure_cycle = r.closure_cycle;
        facts.max_size = r.max_size;
        facts.max_depth = r.max_depth;
        facts.used_env = r.used_env;
        facts.used_auto_fields = r.used_auto_fields;
        facts.used_negative_impl = r.used_negative_impl;
        facts.ind_cycle_hits = r.ind_cycle_hits;
        facts.ref_steps = r.steps;
        let verdict = match (v, sol) {
            (Tv::U, _) => Verdict::Undecided("ref-unknown".into()),
            (Tv::T, Some(Solution::Unique(_))) | (Tv::F, None) => Verdict::Agree,
            (Tv::T, None) => Verdict::Contradiction { class: "none-but-true".into(), detail: "solver says 'No possible solution' but the goal is true in the program's logical meaning".into() },
            (Tv::F, Some(Solution::Unique(_))) => Verdict::Contradiction { class: "unique-but-false".into(), detail: "solver says 'Unique' but the goal is false in the program's logical meaning".into() },
            (tv, Some(Solution::Ambig(_))) => Verdict::AmbiguousClosed { ref_true: tv == Tv::T },
        };
        return (verdict, facts);
    }
    // goal with unknowns: only the shape exists<X..> { exists-free body }
    let info = match eval_exists(prog, goal, 2, budget / 8 + 500, 900) {
        Some(i) => i,
        None => return (Verdict::Undecided("nested-exists".into()), facts),
    };
    facts.co_cycle_max_len = info.co_cycle_max_len;
    facts.closure_cycle = info.closure_cycle;
    facts.max_size = info.max_size;
    facts.exists_solutions = info.sols.len();
    if info.unsat {
        return (
            match sol {
                None => Verdict::Agree,
                Some(Solution::Unique(_)) => Verdict::Contradiction { class: "unique-but-false".into(), detail: "solver says 'Unique' but the goal's equations alone have no solution (occurs check / constructor clash)".into() },
                Some(_) => Verdict::Undecided("ambiguous-answer-to-unsatisfiable-equations".into()),
            },
            facts,
        );
    }
    let sol = match sol {
        None => {
            return if let Some(s) = info.sols.first() {
                (
                    Verdict::Contradiction {
                        class: "none-but-solution".into(),
                        detail: format!("solver says 'No possible solution' but [{}] := [{}] is a solution", info.vars.join(", "), s.iter().map(|t| t.show()).collect::<Vec<_>>().join(", ")),
                    },
                    facts,
                )
            } else {
                (if info.unk { Verdict::Undecided("no-solution-in-bounded-universe".into()) } else { Verdict::Agree }, facts)
            };
        }
        Some(s) => s,
    };
    let sigma = match answer_subst(sol, program) {
        Some(s) => s,
        None => return (Verdict::Undecided("answer-without-definite-substitution".into()), facts),
    };
    let (_, occ) = first_occurrence_order(goal).unwrap();
    if occ.len() != sigma.len() || g.canonical.binders.len(ChalkIr) != sigma.len() {
        return (Verdict::Undecided("binder-mismatch".into()), facts);
    }
    let pos: Vec<usize> = occ.iter().map(|v| info.vars.iter().position(|x| x == v).unwrap()).collect();
    let matches = |asg: &Vec<FTy>| -> bool {
        let mut m = BTreeMap::new();
        sigma.iter().zip(pos.iter()).all(|(pat, &vi)| match_ty(pat, &asg[vi], &mut m))
    };
    // every proved instance must be an instance of the definite substitution
    for s in &info.sols {
        // only variables that occur are constrained by the answer
        if !matches(s) {
            return (
                Verdict::Contradiction {
                    class: "definite-excludes-solution".into(),
                    detail: format!(
                        "answer substitution [{}] (for [{}]) excludes the solution [{}] := [{}]",
                        sigma.iter().map(|t| t.show()).collect::<Vec<_>>().join(", "),
                        occ.join(", "),
                        info.vars.join(", "),
                        s.iter().map(|t| t.show()).collect::<Vec<_>>().join(", ")
                    ),
                },
                facts,
            );
        }
    }
    if let Solution::Unique(_) = sol {
        // every instantiation of a Unique answer must hold
        for rj in &info.refuted {
            if matches(rj) {
                return (
                    Verdict::Contradiction {
                        class: "unique-instance-false".into(),
                        detail: format!(
                            "solver says 'Unique' with [{}] := [{}] but the instance [{}] := [{}] is false",
                            occ.join(", "),
                            sigma.iter().map(|t| t.show()).collect::<Vec<_>>().join(", "),
                            info.vars.join(", "),
                            rj.iter().map(|t| t.show()).collect::<Vec<_>>().join(", ")
                        ),
                    },
                    facts,
                );
            }
        }
    }
    (Verdict::Agree, facts)
}
