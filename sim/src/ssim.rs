//! solver-sim: the common layer of every check that drives the two solvers through `SimDb`.

use crate::exec::*;
use crate::rng::{Rng, RollHash};
use crate::run::RunResult;
use crate::simdb::SimDb;
use crate::world::{Corpus, World};
use chalk_integration::program::Program;
use serde::{Deserialize, Serialize};
use std::collections::BTreeMap;
use std::sync::Arc;

#[derive(Serialize, Deserialize, Clone, Debug, Default, PartialEq)]
pub struct DbCfg {
    /// permute every list answer of the database with this seed
    pub perm_seed: Option<u64>,
    /// `impls_for_trait` returns every impl of the trait (a legal superset)
    pub superset: bool,
    /// fault points restricted to data-returning callbacks
    pub data_only_faults: bool,
}

/// Explicit, replayable description of one simulated run of a solver-sim check.
#[derive(Serialize, Deserialize, Clone, Debug)]
pub struct Spec {
    pub check: String,
    pub world: World,
    pub slots: Vec<SlotCfg>,
    pub ops: Vec<Op>,
    #[serde(default)]
    pub db: DbCfg,
    pub budget: u64,
    /// C12: crash points to try (None = enumerate 1..=min(N, cap), strided); C11: see `scheds`
    #[serde(default)]
    pub points: Option<Vec<u64>>,
    #[serde(default)]
    pub scheds: Option<Vec<Sched>>,
    #[serde(default)]
    pub cap: u64,
    /// check-specific parameters
    #[serde(default)]
    pub params: BTreeMap<String, i64>,
}

pub struct Lowered {
    pub p: Arc<Program>,
    pub goals: Vec<Option<G>>,
}

pub fn lower(world: &World) -> Result<Lowered, String> {
    let p = try_program(&world.program_text())?;
    Ok(Lowered { p, goals: vec![] })
}

/// lower goals; must be called under `with_program(&l.p)`
pub fn lower_goals(l: &mut Lowered, world: &World) {
    l.goals = world.goals.iter().map(|g| try_goal(&l.p, g)).collect();
}

/// Memo of specification answers: fresh solver, pristine database.
pub struct FreshMemo {
    map: BTreeMap<String, (Out, OpStats)>,
    pub computed: u64,
}
impl FreshMemo {
    pub fn new() -> FreshMemo {
        FreshMemo { map: BTreeMap::new(), computed: 0 }
    }
    pub fn get(&mut self, l: &Lowered, cfg: &SlotCfg, gi: usize, kind: &OpKind, budget: u64) -> &(Out, OpStats) {
        let key = format!("{}|{}|{:?}", cfg.fresh_cfg().name(), gi, kind);
        if !self.map.contains_key(&key) {
            let g = l.goals[gi].as_ref().expect("goal lowered");
            let r = fresh_answer(&l.p, cfg, g, kind, budget);
            self.computed += 1;
            self.map.insert(key.clone(), r);
        }
        &self.map[&key]
    }
}

pub fn mk_db(l: &Lowered, cfg: &DbCfg) -> SimDb {
    let db = SimDb::new(&l.p);
    {
        let mut s = db.st.borrow_mut();
        s.perm_seed = cfg.perm_seed;
        s.superset = cfg.superset;
        s.data_only = cfg.data_only_faults;
    }
    db
}

/// Per-run event recorder: shape hash (structure of what happened) and full log hash.
pub struct Recorder {
    pub shape: RollHash,
    pub log: RollHash,
    pub trace: Vec<String>,
    pub keep_trace: bool,
}
impl Recorder {
    pub fn new(keep_trace: bool) -> Recorder {
        Recorder { shape: RollHash::new(), log: RollHash::new(), trace: vec![], keep_trace }
    }
    pub fn op(&mut self, slot: &SlotCfg, op_kind: &OpKind, fault: Option<u64>, out: &Out, st: &OpStats, goal_text: &str) {
        self.shape.add_str(slot.kind());
        self.shape.add_str(match op_kind {
            OpKind::Solve => "solve",
            OpKind::Limited(Sched::Never) => "limited-never",
            OpKind::Limited(_) => "limited",
            OpKind::Multi { .. } => "multi",
            OpKind::HasUnique => "has-unique",
        });
        self.shape.add_str(out.class());
        if let Out::Faulted(_, m) = out {
            self.shape.add_str(m);
        }
        if let Out::Multi { answers, completed } = out {
            self.shape.add(*completed as u64);
            for (a, more) in answers.iter().take(12) {
                self.shape.add(match a {
                    MultiAns::Definite(_) => 1,
                    MultiAns::Ambiguous(_) => 2,
                    MultiAns::Floundered => 3,
                } + 4 * (*more as u64));
            }
        }
        self.shape.add(st.sc_false.min(3));
        self.shape.add(st.callbacks.min(8));
        // size class of the proof search: log2 bucket of the database calls it made
        self.shape.add(64 - st.db_calls.leading_zeros() as u64);
        let rendered = fmt_out(out);
        self.log.add_str(&rendered);
        self.log.add(st.db_calls);
        self.log.add(st.sc_calls);
        if self.keep_trace && self.trace.len() < 64 {
            self.trace.push(format!(
                "{} {:?}{} on `{}` -> {} [{} db calls]",
                slot.name(),
                op_kind,
                fault.map(|f| format!(" fault@{}", f)).unwrap_or_default(),
                goal_text,
                rendered.chars().take(200).collect::<String>(),
                st.db_calls
            ));
        }
    }
}

pub fn account(r: &mut RunResult, out: &Out, st: &OpStats, kind: &OpKind) {
    r.bump("sim.db_calls", st.db_calls);
    r.bump("sim.ops", 1);
    r.bump(
        match kind {
            OpKind::Solve => "op.solve",
            OpKind::Limited(_) => "op.solve_limited",
            OpKind::Multi { .. } => "op.solve_multiple",
            OpKind::HasUnique => "op.has_unique",
        },
        1,
    );
    r.bump("sim.should_continue_calls", st.sc_calls);
    r.bump("sim.answer_callbacks", st.callbacks);
    if st.sc_false > 0 {
        r.bump("fault.interruptions_fired", st.sc_false);
    }
    match out {
        Out::Faulted(_, m) => {
            r.bump("fault.db_panic_fired", 1);
            r.bump(&format!("fault.db_panic.{}", m), 1);
        }
        Out::Budget => r.bump("excluded.step_budget", 1),
        Out::Panic(_) => r.bump("outcome.genuine_panic", 1),
        _ => {}
    }
}

/// Pick a corpus world for run `idx`: walk the corpus in a seed-dependent permutation so that
/// consecutive runs cover different entries; entries without goals are skipped by the caller.
pub fn corpus_pick(corpus: &Corpus, base_perm_seed: u64, idx: u64) -> usize {
    let n = corpus.entries.len();
    let mut order: Vec<usize> = (0..n).collect();
    Rng::new(base_perm_seed).shuffle(&mut order);
    order[(idx as usize) % n]
}

pub fn goal_indices_ok(corpus: Option<(&Corpus, usize)>, world: &World, kinds: &[&str]) -> Vec<usize> {
    (0..world.goals.len())
        .filter(|gi| match corpus {
            Some((c, e)) => !kinds.iter().any(|k| c.tagged(e, *gi, k).is_some()),
            None => true,
        })
        .collect()
}

pub fn entry_of(world: &World) -> Option<usize> {
    world.source.strip_prefix("corpus:").and_then(|s| s.rsplit('#').next()).and_then(|n| n.parse().ok())
}

/// static signature tags of (world, goal): `+overlap`, `+co-reach`, `+implied-bound-cycle` (fragment worlds only)
/// textual test (works on every world, also outside the fragment parser): does some impl header mention one of
/// its type parameters more than once (`impl<T> Tr for (T, T)`, `impl<T> Tr<T> for W<T>`)?
pub fn nonlinear_impl_header(items: &str) -> bool {
    let mut rest = items;
    while let Some(i) = rest.find("impl<") {
        let after = &rest[i + 5..];
        let close = match after.find('>') {
            Some(j) => j,
            None => break,
        };
        let params: Vec<&str> = after[..close].split(',').map(|s| s.trim().trim_start_matches("const ").trim()).filter(|s| !s.is_empty() && !s.starts_with('\'')).collect();
        let tail = &after[close + 1..];
        let end = [tail.find(" where "), tail.find('{')].iter().flatten().min().copied().unwrap_or(tail.len());
        let header = &tail[..end];
        let words: Vec<&str> = header.split(|c: char| !(c.is_alphanumeric() || c == '_')).filter(|w| !w.is_empty()).collect();
        if params.iter().any(|p| words.iter().filter(|w| *w == p).count() > 1) {
            return true;
        }
        rest = tail;
    }
    false
}

/// `+mixed-cycle` tag: the program (parsed by the fragment parser; the unit type `()` is read as a struct) has a
/// cycle through inductive and coinductive traits
pub fn mixed_cycle_world(world: &World) -> bool {
    let parsed = crate::wgen::parse_world(world).ok().or_else(|| {
        let mut w = world.clone();
        for it in w.items.iter_mut() {
            *it = it.replace("()", "Unit__");
        }
        w.items.insert(0, "struct Unit__ { }".to_string());
        w.goals = vec![];
        crate::wgen::parse_world(&w).ok()
    });
    parsed.map(|(p, _)| crate::wgen::mixed_cycle(&p)).unwrap_or(false)
}

/// textual test for worlds outside the fragment parser: a trait without parameters has a blanket impl
/// (`impl<T> Tr for T`) and at least one more impl — the blanket header unifies with every other header
/// textual: the goal has a hypothesis on a trait that has a blanket impl (`impl<T..> Tr<..> for T`, trait arguments
/// bare parameters or none): hypothesis and impl are two clauses for the same goals
pub fn hyp_vs_blanket_overlap(items: &[String], goal: &str) -> bool {
    if !goal.contains("if (") {
        return false;
    }
    for it in items {
        let it = it.trim();
        let r = match it.strip_prefix("impl<") {
            Some(r) => r,
            None => continue,
        };
        let j = match r.find('>') {
            Some(j) => j,
            None => continue,
        };
        let params: Vec<String> = r[..j].split(',').map(|s| s.trim().to_string()).collect();
        let head = r[j + 1..].split(" where ").next().unwrap_or("").split('{').next().unwrap_or("").trim();
        if let Some((tr, ty)) = head.split_once(" for ") {
            if !params.iter().any(|p| p == ty.trim()) {
                continue;
            }
            let (name, args) = match tr.trim().split_once('<') {
                Some((n, a)) => (n.trim(), a.trim_end_matches('>')),
                None => (tr.trim(), ""),
            };
            if !args.is_empty() && !args.split(',').all(|a| params.iter().any(|p| p == a.trim())) {
                continue;
            }
            // hypothesis segments: text between `if (` and the matching `)`
            let mut rest = goal;
            while let Some(i) = rest.find("if (") {
                let seg = &rest[i + 4..];
                let end = seg.find(") {").unwrap_or(seg.len());
                let h = &seg[..end];
                if h.contains(&format!(": {}<", name)) || h.contains(&format!(": {};", name)) || h.ends_with(&format!(": {}", name)) || h.contains(&format!(": {})", name)) {
                    return true;
                }
                rest = &seg[end..];
            }
        }
    }
    false
}

pub fn blanket_overlap(items: &[String]) -> bool {
    let mut by_trait: BTreeMap<String, (usize, bool)> = BTreeMap::new();
    for it in items {
        let it = it.trim();
        if !it.starts_with("impl") || it.starts_with("impl !") || it.contains(" !") {
            continue;
        }
        let (params, rest) = match it.strip_prefix("impl<") {
            Some(r) => match r.find('>') {
                Some(j) => (r[..j].split(',').map(|s| s.trim().to_string()).collect::<Vec<_>>(), r[j + 1..].trim()),
                None => continue,
            },
            None => (vec![], it[4..].trim()),
        };
        let head = rest.split(" where ").next().unwrap_or("").split('{').next().unwrap_or("").trim();
        if let Some((tr, ty)) = head.split_once(" for ") {
            let tr = tr.trim();
            if tr.contains('<') {
                continue;
            }
            let e = by_trait.entry(tr.to_string()).or_insert((0, false));
            e.0 += 1;
            if params.iter().any(|p| p == ty.trim()) {
                e.1 = true;
            }
        }
    }
    by_trait.values().any(|(n, blanket)| *blanket && *n >= 2)
}

/// `+overlap`: two clauses for the same trait with unifiable heads — two positive impls, or (goal-specific) a
/// hypothesis of the goal and an impl; textual blanket-impl test for worlds the fragment parser does not read
pub fn overlap_tag(world: &World, goal: usize) -> bool {
    match crate::wgen::parse_world(world) {
        Ok((prog, goals)) => crate::wgen::has_overlapping_impls(&prog) || matches!(goals.get(goal), Some(Ok(ast)) if crate::wgen::hyp_overlaps_impl(&prog, ast)),
        Err(_) => blanket_overlap(&world.items) || world.goals.get(goal).map(|g| hyp_vs_blanket_overlap(&world.items, g)).unwrap_or(false),
    }
}

pub fn static_tags(world: &World, goal: usize) -> String {
    let mut t = String::new();
    if nonlinear_impl_header(&world.items.join("\n")) {
        t.push_str("+nonlinear");
    }
    if overlap_tag(world, goal) {
        t.push_str("+overlap");
    }
    if let Ok((prog, goals)) = crate::wgen::parse_world(world) {
        if let Some(Ok(ast)) = goals.get(goal) {
            let mut gp = vec![];
            ast.preds(&mut gp);
            let tainted = crate::wgen::co_tainted(&prog);
            if gp.iter().any(|p| tainted.contains(&p.tr)) {
                t.push_str("+co-reach");
            }
        }
        if crate::wgen::implied_bound_cycle(&prog) {
            t.push_str("+implied-bound-cycle");
        }
    }
    t
}

/// textual test: does some `if (...)` hypothesis of the goal mention an existentially quantified name?
pub fn hyp_mentions_unknown(goal: &str) -> bool {
    let mut names: Vec<String> = vec![];
    let mut rest = goal;
    while let Some(i) = rest.find("exists<") {
        let after = &rest[i + 7..];
        if let Some(j) = after.find('>') {
            for n in after[..j].split(',') {
                let n = n.trim().trim_start_matches("const ").trim();
                if !n.is_empty() {
                    names.push(n.to_string());
                }
            }
            rest = &after[j..];
        } else {
            break;
        }
    }
    if names.is_empty() {
        return false;
    }
    let mut rest = goal;
    while let Some(i) = rest.find("if (") {
        let after = &rest[i + 4..];
        // hypothesis text up to the matching ')'
        let mut depth = 1;
        let mut end = after.len();
        for (k, ch) in after.char_indices() {
            match ch {
                '(' => depth += 1,
                ')' => {
                    depth -= 1;
                    if depth == 0 {
                        end = k;
                        break;
                    }
                }
                _ => {}
            }
        }
        let hyp = &after[..end];
        let is_word = |c: char| c.is_alphanumeric() || c == '_';
        for n in &names {
            let mut from = 0;
            while let Some(p) = hyp[from..].find(n.as_str()) {
                let a = from + p;
                let b = a + n.len();
                let left_ok = a == 0 || !hyp[..a].chars().rev().next().map(is_word).unwrap_or(false);
                let right_ok = b >= hyp.len() || !hyp[b..].chars().next().map(is_word).unwrap_or(false);
                if left_ok && right_ok {
                    return true;
                }
                from = b;
            }
        }
        rest = &after[end..];
    }
    false
}
