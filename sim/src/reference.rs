//! `Ref`: a small executable model of the logical meaning of a fragment program, independent of
//! chalk's IR and clause generation. Three-valued; oracles alarm only on certified contradictions.

use crate::wgen::*;
use std::collections::{BTreeMap, BTreeSet};

#[derive(Clone, Copy, Debug, PartialEq, Eq)]
pub enum Tv {
    T,
    F,
    U,
}

pub struct Budget;

type Atom = (Ty, String, Vec<Ty>);

pub struct Ref<'a> {
    pub p: &'a Prog,
    pub steps: u64,
    pub budget: u64,
    /// largest type size met in a derivation
    pub max_size: usize,
    /// deepest ancestor stack
    pub max_depth: usize,
    /// facts about the evaluation, used for known-finding signatures and evidence
    pub co_cycle_max_len: usize,
    pub ind_cycle_hits: u64,
    pub mixed_cycle_hits: u64,
    pub closure_cycle: bool,
    pub used_env: bool,
    pub used_auto_fields: bool,
    pub used_negative_impl: bool,
    pub size_limit: usize,
    /// some atom was refuted by the infinite-regress rule: its proof search cannot stay within ANY size limit
    pub unbounded_regress: bool,
}

impl<'a> Ref<'a> {
    pub fn new(p: &'a Prog, budget: u64) -> Ref<'a> {
        Ref {
            p,
            steps: 0,
            budget,
            max_size: 0,
            max_depth: 0,
            co_cycle_max_len: 0,
            ind_cycle_hits: 0,
            mixed_cycle_hits: 0,
            closure_cycle: false,
            used_env: false,
            used_auto_fields: false,
            used_negative_impl: false,
            size_limit: 14,
            unbounded_regress: false,
        }
    }
    fn tick(&mut self) -> Result<(), Budget> {
        self.steps += 1;
        if self.steps > self.budget {
            Err(Budget)
        } else {
            Ok(())
        }
    }

    /// everything the hypotheses imply through trait where-clauses (supertraits, parameter bounds)
    pub fn closure(&mut self, env: &BTreeSet<Atom>) -> BTreeSet<Atom> {
        let mut out = env.clone();
        // the solvers measure whole goals, environment included: hypotheses and what they elaborate to count
        for (ty, _, args) in env.iter() {
            self.max_size = self.max_size.max(ty.size()).max(args.iter().map(|a| a.size()).max().unwrap_or(0));
        }
        let mut work: Vec<Atom> = env.iter().cloned().collect();
        while let Some((ty, tn, args)) = work.pop() {
            let td = match self.p.tr(&tn) {
                Some(t) => t,
                None => continue,
            };
            let mut m = BTreeMap::new();
            m.insert("Self".to_string(), ty.clone());
            for (i, a) in args.iter().enumerate() {
                if let Some(pn) = td.params.get(i) {
                    m.insert(pn.clone(), a.clone());
                }
            }
            for wc in &td.wcs {
                let f = wc.subst(&m);
                let atom = (f.ty, f.tr, f.args);
                self.max_size = self.max_size.max(atom.0.size()).max(atom.2.iter().map(|a| a.size()).max().unwrap_or(0));
                if out.contains(&atom) {
                    self.closure_cycle = true;
                } else {
                    out.insert(atom.clone());
                    work.push(atom);
                }
            }
        }
        out
    }

    fn atom(&mut self, ty: &Ty, tn: &str, args: &[Ty], env: &BTreeSet<Atom>, stack: &mut Vec<(Atom, bool)>) -> Result<Tv, Budget> {
        self.tick()?;
        let sz = ty.size().max(args.iter().map(|a| a.size()).max().unwrap_or(0));
        self.max_size = self.max_size.max(sz);
        let key: Atom = (ty.clone(), tn.to_string(), args.to_vec());
        if sz > self.size_limit {
            // the derivation keeps growing: before giving up, try to refute the atom for good by the infinite-regress
            // rule on one of its generalisations (only without hypotheses: an assumption could make an instance true)
            if env.is_empty() {
                for pat in generalisations(&key) {
                    if self.regress_false(&pat, &mut vec![], 0) {
                        self.unbounded_regress = true;
                        self.max_size = usize::MAX / 4;
                        return Ok(Tv::F);
                    }
                }
            }
            // locally unknown (not a global give-up): another clause of an ancestor may still decide it
            return Ok(Tv::U);
        }
        if env.contains(&key) {
            self.used_env = true;
            return Ok(Tv::T);
        }
        let td = match self.p.tr(tn) {
            Some(t) => t,
            None => return Ok(Tv::U),
        };
        let co = td.kind != TraitKind::Ind;
        if let Some(i) = stack.iter().position(|s| s.0 == key) {
            let kinds: BTreeSet<bool> = stack[i..].iter().map(|s| s.1).collect();
            if kinds.len() == 1 && kinds.contains(&true) {
                self.co_cycle_max_len = self.co_cycle_max_len.max(stack.len() - i);
                return Ok(Tv::T);
            }
            if kinds.len() == 1 {
                self.ind_cycle_hits += 1;
                return Ok(Tv::F);
            }
            self.mixed_cycle_hits += 1;
            return Ok(Tv::U);
        }
        stack.push((key, co));
        self.max_depth = self.max_depth.max(stack.len());
        let r = self.atom_inner(ty, tn, args, td, env, stack);
        stack.pop();
        r
    }

    /// Infinite regress. Is the pattern (an atom of an inductive trait with variables) false for EVERY instantiation
    /// of its variables? The complement of a least fixed point is a greatest fixed point, so the argument may be
    /// circular: assume the pattern (and the enclosing patterns `hyps`) false; every clause whose head unifies with
    /// the pattern must (i) match it without instantiating the pattern's variables — otherwise some instances have
    /// a clause this argument does not see, give up — and (ii) have a body atom that is an instance of an assumed
    /// pattern, or is ground and false by ordinary evaluation, or is refuted by the same rule. Sound by induction
    /// on the height of a hypothetical derivation of an instance (its last clause instance has a body atom that is
    /// again in the assumed-false set, with a smaller derivation).
    fn regress_false(&mut self, pat: &Atom, hyps: &mut Vec<Atom>, depth: usize) -> bool {
        self.steps += 1;
        if depth > 3 || self.steps > self.budget {
            return false;
        }
        match self.p.tr(&pat.1) {
            Some(t) if t.kind == TraitKind::Ind => {}
            _ => return false,
        }
        let instance_of = |h: &Atom, a: &Atom| -> bool {
            let mut m = BTreeMap::new();
            h.1 == a.1 && h.2.len() == a.2.len() && match_ty(&h.0, &a.0, &mut m) && h.2.iter().zip(a.2.iter()).all(|(x, y)| match_ty(x, y, &mut m))
        };
        if hyps.iter().any(|h| instance_of(h, pat)) {
            return true;
        }
        let impls: Vec<ImplDecl> = self.p.impls().filter(|im| im.tr == pat.1 && im.positive).cloned().collect();
        hyps.push(pat.clone());
        let mut ok = true;
        for im in &impls {
            let ren: BTreeMap<String, Ty> = im.params.iter().map(|q| (q.clone(), Ty::Var(format!("{}'r", q)))).collect();
            let hs = im.self_ty.subst(&ren);
            let ha: Vec<Ty> = im.args.iter().map(|a| a.subst(&ren)).collect();
            if ha.len() != pat.2.len() {
                ok = false;
                break;
            }
            let mut u = BTreeMap::new();
            if !(unify_ty(&hs, &pat.0, &mut u) && ha.iter().zip(pat.2.iter()).all(|(x, y)| unify_ty(x, y, &mut u))) {
                continue;
            }
            let mut m = BTreeMap::new();
            if !(match_ty(&hs, &pat.0, &mut m) && ha.iter().zip(pat.2.iter()).all(|(x, y)| match_ty(x, y, &mut m))) {
                ok = false;
                break;
            }
            let mut refuted = false;
            for wc in &im.wcs {
                let w = wc.subst(&ren).subst(&m);
                let wa: Atom = (w.ty, w.tr, w.args);
                let sz = wa.0.size().max(wa.2.iter().map(|a| a.size()).max().unwrap_or(0));
                if sz > 2 * self.size_limit {
                    continue;
                }
                if !wa.0.has_var() && !wa.2.iter().any(|a| a.has_var()) {
                    if let Ok(Tv::F) = self.atom(&wa.0, &wa.1, &wa.2, &BTreeSet::new(), &mut vec![]) {
                        refuted = true;
                        break;
                    }
                } else if self.regress_false(&wa, hyps, depth + 1) {
                    refuted = true;
                    break;
                }
            }
            if !refuted {
                ok = false;
                break;
            }
        }
        hyps.pop();
        ok
    }

    fn atom_inner(&mut self, ty: &Ty, tn: &str, args: &[Ty], td: &TraitDecl, env: &BTreeSet<Atom>, stack: &mut Vec<(Atom, bool)>) -> Result<Tv, Budget> {
        let mut res = Tv::F;
        let impls: Vec<&ImplDecl> = self.p.impls().filter(|im| im.tr == tn).collect();
        for im in &impls {
            if !im.positive {
                continue;
            }
            let mut m = BTreeMap::new();
            if !match_ty(&im.self_ty, ty, &mut m) {
                continue;
            }
            if !im.args.iter().zip(args.iter()).all(|(p, a)| match_ty(p, a, &mut m)) {
                continue;
            }
            let mut r = Tv::T;
            for wc in &im.wcs {
                let w = wc.subst(&m);
                match self.atom(&w.ty, &w.tr, &w.args, env, stack)? {
                    Tv::F => {
                        r = Tv::F;
                        break;
                    }
                    Tv::U => r = Tv::U,
                    Tv::T => {}
                }
            }
            match r {
                Tv::T => return Ok(Tv::T),
                Tv::U => res = Tv::U,
                Tv::F => {}
            }
        }
        if td.kind == TraitKind::Auto {
            if let Ty::Adt(name, targs) = ty {
                let provided = impls.iter().any(|im| matches!(&im.self_ty, Ty::Adt(n, _) if n == name));
                if provided {
                    if impls.iter().any(|im| !im.positive && matches!(&im.self_ty, Ty::Adt(n, _) if n == name)) {
                        self.used_negative_impl = true;
                    }
                } else if let Some(ad) = self.p.adt(name) {
                    self.used_auto_fields = true;
                    let mut m = BTreeMap::new();
                    for (pn, a) in ad.params.iter().zip(targs.iter()) {
                        m.insert(pn.clone(), a.clone());
                    }
                    let mut r = Tv::T;
                    for f in &ad.fields {
                        let ft = f.subst(&m);
                        match self.atom(&ft, tn, &[], env, stack)? {
                            Tv::F => {
                                r = Tv::F;
                                break;
                            }
                            Tv::U => r = Tv::U,
                            Tv::T => {}
                        }
                    }
                    match r {
                        Tv::T => return Ok(Tv::T),
                        Tv::U => res = Tv::U,
                        Tv::F => {}
                    }
                }
            }
        }
        Ok(res)
    }

    pub fn goal(&mut self, g: &Goal, env: &BTreeSet<Atom>, m: &BTreeMap<String, Ty>, skc: &mut u32) -> Result<Tv, Budget> {
        self.tick()?;
        Ok(match g {
            Goal::Pred(p) => {
                let q = p.subst(m);
                self.max_size = self.max_size.max(q.ty.size()).max(q.args.iter().map(|a| a.size()).max().unwrap_or(0));
                if q.has_var() {
                    return Ok(Tv::U);
                }
                let cl = self.closure(env);
                self.atom(&q.ty, &q.tr, &q.args, &cl, &mut vec![])?
            }
            Goal::Eq(a, b) => {
                let (x, y) = (a.subst(m), b.subst(m));
                self.max_size = self.max_size.max(x.size()).max(y.size());
                if x.has_var() || y.has_var() {
                    return Ok(Tv::U);
                }
                if x == y {
                    Tv::T
                } else {
                    Tv::F
                }
            }
            Goal::And(v) => {
                let mut r = Tv::T;
                for x in v {
                    match self.goal(x, env, m, skc)? {
                        Tv::F => return Ok(Tv::F),
                        Tv::U => r = Tv::U,
                        Tv::T => {}
                    }
                }
                r
            }
            Goal::Forall(vs, b) => {
                let mut m2 = m.clone();
                for v in vs {
                    *skc += 1;
                    m2.insert(v.clone(), Ty::Sk(*skc));
                }
                self.goal(b, env, &m2, skc)?
            }
            Goal::If(hs, b) => {
                let mut e2 = env.clone();
                for h in hs {
                    let q = h.subst(m);
                    if q.has_var() {
                        return Ok(Tv::U);
                    }
                    e2.insert((q.ty, q.tr, q.args));
                }
                self.goal(b, &e2, m, skc)?
            }
            Goal::Not(b) => match self.goal(b, env, m, skc)? {
                Tv::T => Tv::F,
                Tv::F => Tv::T,
                Tv::U => Tv::U,
            },
            Goal::Exists(..) => Tv::U,
        })
    }
}

/// the atom with one subterm occurrence replaced by the variable `?g` (every position), most general first
fn generalisations(a: &Atom) -> Vec<Atom> {
    fn positions(t: &Ty, out: &mut Vec<Ty>, rebuild: &dyn Fn(Ty) -> Ty) {
        out.push(rebuild(Ty::Var("?g".into())));
        if let Ty::Adt(n, args) = t {
            for i in 0..args.len() {
                let f = |x: Ty| {
                    let mut a2 = args.clone();
                    a2[i] = x;
                    rebuild(Ty::Adt(n.clone(), a2))
                };
                positions(&args[i], out, &f);
            }
        }
    }
    let mut out = vec![];
    let mut tys = vec![];
    positions(&a.0, &mut tys, &|x| x);
    for t in tys {
        out.push((t, a.1.clone(), a.2.clone()));
    }
    for i in 0..a.2.len() {
        let mut tys = vec![];
        positions(&a.2[i], &mut tys, &|x| x);
        for t in tys {
            let mut args = a.2.clone();
            args[i] = t;
            out.push((a.0.clone(), a.1.clone(), args));
        }
    }
    out.sort_by_key(|p| p.0.size() + p.2.iter().map(|x| x.size()).sum::<usize>());
    out.truncate(40);
    out
}

/// Evaluate a closed goal. Returns the verdict and the evaluator (for its recorded facts).
pub fn eval_closed<'a>(p: &'a Prog, g: &Goal, budget: u64) -> (Tv, Ref<'a>) {
    let mut r = Ref::new(p, budget);
    let v = match r.goal(g, &BTreeSet::new(), &BTreeMap::new(), &mut 0) {
        Ok(v) => v,
        Err(Budget) => Tv::U,
    };
    (v, r)
}

/// All types of depth <= d over the program's constructors.
pub fn universe(p: &Prog, d: usize, cap: usize) -> Vec<Ty> {
    let mut all: Vec<Ty> = p.adts().filter(|a| a.params.is_empty()).map(|a| Ty::Adt(a.name.clone(), vec![])).collect();
    for _ in 0..d {
        let mut new = vec![];
        for a in p.adts().filter(|a| !a.params.is_empty()) {
            let k = a.params.len();
            let n = all.len();
            let total = n.pow(k as u32);
            for mut idx in 0..total {
                let mut args = vec![];
                for _ in 0..k {
                    args.push(all[idx % n].clone());
                    idx /= n;
                }
                let t = Ty::Adt(a.name.clone(), args);
                if !all.contains(&t) && !new.contains(&t) {
                    new.push(t);
                }
                if all.len() + new.len() > cap {
                    break;
                }
            }
        }
        all.extend(new);
        if all.len() > cap {
            break;
        }
    }
    all
}

pub struct ExistsInfo {
    pub vars: Vec<String>,
    /// assignments (aligned with `vars`) that `Ref` proves
    pub sols: Vec<Vec<Ty>>,
    /// assignments `Ref` refutes
    pub refuted: Vec<Vec<Ty>>,
    /// some assignment was Unknown
    pub unk: bool,
    pub tried: usize,
    pub co_cycle_max_len: usize,
    pub closure_cycle: bool,
    pub max_size: usize,
    /// the goal's top-level equations have no unifier: no assignment at all satisfies the goal
    pub unsat: bool,
}

/// For `exists<X..> { body }` (body without further exists): decide the body on every assignment from
/// the bounded universe.
pub fn eval_exists(p: &Prog, g: &Goal, depth: usize, budget_each: u64, cap_assignments: usize) -> Option<ExistsInfo> {
    let (vars, body) = match g {
        Goal::Exists(v, b) if !b.has_exists() => (v.clone(), (**b).clone()),
        _ => return None,
    };
    let uni = universe(p, depth, 60);
    let n = uni.len();
    if n == 0 {
        return None;
    }
    // top-level equations between the unknowns are solved first (most general unifier); only the unknowns they
    // leave free are enumerated, the others follow from them (`exists<X1, X2, X3> { X1 = X2, X2 = V<X3>, .. }`)
    let mut mgu: BTreeMap<String, Ty> = BTreeMap::new();
    let mut unsat = false;
    {
        let conj: Vec<&Goal> = match &body {
            Goal::And(cs) => cs.iter().collect(),
            g => vec![g],
        };
        for c in conj {
            if let Goal::Eq(a, b) = c {
                if !unify_ty(a, b, &mut mgu) {
                    unsat = true;
                }
            }
        }
    }
    fn resolve(t: &Ty, m: &BTreeMap<String, Ty>, fuel: usize) -> Ty {
        match t {
            Ty::Var(v) => match m.get(v) {
                Some(x) if fuel > 0 => resolve(x, m, fuel - 1),
                _ => t.clone(),
            },
            Ty::Adt(n, a) => Ty::Adt(n.clone(), a.iter().map(|x| resolve(x, m, fuel)).collect()),
            Ty::Sk(_) => t.clone(),
        }
    }
    if unsat {
        // the equations alone have no solution: every assignment is refuted
        return Some(ExistsInfo { vars: vars.clone(), sols: vec![], refuted: vec![], unk: false, tried: 0, co_cycle_max_len: 0, closure_cycle: false, max_size: 0, unsat: true });
    }
    let resolved: Vec<Ty> = vars.iter().map(|v| resolve(&Ty::Var(v.clone()), &mgu, 32)).collect();
    let mut free: Vec<String> = vec![];
    for t in &resolved {
        let mut vs = vec![];
        t.vars(&mut vs);
        for v in vs {
            if !free.contains(&v) {
                free.push(v);
            }
        }
    }
    let total = n.checked_pow(free.len() as u32)?;
    let mut info = ExistsInfo { vars: vars.clone(), sols: vec![], refuted: vec![], unk: total > cap_assignments, tried: 0, co_cycle_max_len: 0, closure_cycle: false, max_size: 0, unsat: false };
    for mut idx in 0..total.min(cap_assignments) {
        let mut fm = BTreeMap::new();
        for v in &free {
            fm.insert(v.clone(), uni[idx % n].clone());
            idx /= n;
        }
        let mut m = BTreeMap::new();
        let mut asg = vec![];
        for (v, rt) in vars.iter().zip(resolved.iter()) {
            let t = rt.subst(&fm);
            m.insert(v.clone(), t.clone());
            asg.push(t);
        }
        let mut r = Ref::new(p, budget_each);
        let v = match r.goal(&body, &BTreeSet::new(), &m, &mut 0) {
            Ok(v) => v,
            Err(Budget) => Tv::U,
        };
        info.tried += 1;
        info.co_cycle_max_len = info.co_cycle_max_len.max(r.co_cycle_max_len);
        info.closure_cycle |= r.closure_cycle;
        info.max_size = info.max_size.max(r.max_size);
        match v {
            Tv::T => info.sols.push(asg),
            Tv::F => info.refuted.push(asg),
            Tv::U => info.unk = true,
        }
    }
    Some(info)
}

/// order in which the existential variables first occur in the body (chalk numbers canonical
/// variables by first occurrence: hypotheses before the consequent, Self type before trait arguments)
pub fn first_occurrence_order(g: &Goal) -> Option<(Vec<String>, Vec<String>)> {
    let (vars, body) = match g {
        Goal::Exists(v, b) => (v.clone(), b),
        _ => return None,
    };
    fn walk_ty(t: &Ty, vars: &[String], out: &mut Vec<String>) {
        match t {
            Ty::Var(v) => {
                if vars.contains(v) && !out.contains(v) {
                    out.push(v.clone())
                }
            }
            Ty::Adt(_, a) => a.iter().for_each(|x| walk_ty(x, vars, out)),
            Ty::Sk(_) => {}
        }
    }
    fn walk_pred(p: &Pred, vars: &[String], out: &mut Vec<String>) {
        walk_ty(&p.ty, vars, out);
        p.args.iter().for_each(|a| walk_ty(a, vars, out));
    }
    fn walk(g: &Goal, vars: &[String], out: &mut Vec<String>) {
        match g {
            Goal::Pred(p) => walk_pred(p, vars, out),
            Goal::Eq(a, b) => {
                walk_ty(a, vars, out);
                walk_ty(b, vars, out);
            }
            Goal::And(v) => v.iter().for_each(|x| walk(x, vars, out)),
            Goal::Forall(_, b) | Goal::Exists(_, b) | Goal::Not(b) => walk(b, vars, out),
            Goal::If(hs, b) => {
                hs.iter().for_each(|h| walk_pred(h, vars, out));
                walk(b, vars, out);
            }
        }
    }
    let mut out = vec![];
    walk(body, &vars, &mut out);
    Some((vars, out))
}
