//! Worlds: program text as a list of items + goal texts. Sources: W-corpus (harvested test
//! inputs, committed under /verif/corpus) and W-gen (wgen.rs).

use serde::{Deserialize, Serialize};
use std::collections::BTreeMap;

#[derive(Serialize, Deserialize, Clone, Debug, PartialEq)]
pub struct World {
    /// "corpus:<file>#<n>" or "wgen"
    pub source: String,
    pub items: Vec<String>,
    pub goals: Vec<String>,
}

impl World {
    pub fn program_text(&self) -> String {
        self.items.join("\n")
    }
}

#[derive(Deserialize, Clone, Debug)]
pub struct CorpusEntry {
    pub file: String,
    pub program: String,
    pub goals: Vec<String>,
    #[allow(dead_code)]
    pub coherence: bool,
}

#[derive(Deserialize, Clone, Debug, Default)]
pub struct Tags {
    /// "entry:goal:solverkind" -> outcome ("hang" | "abort" | "budget" | "panic:<msg>")
    pub bad: BTreeMap<String, String>,
}

pub struct Corpus {
    pub entries: Vec<CorpusEntry>,
    pub tags: Tags,
}

pub fn verif_root() -> String {
    std::env::var("VERIF_ROOT").unwrap_or_else(|_| "/verif".to_string())
}

impl Corpus {
    pub fn load() -> Corpus {
        let root = verif_root();
        let text = std::fs::read_to_string(format!("{}/corpus/corpus.json", root)).expect("corpus.json");
        let entries: Vec<CorpusEntry> = serde_json::from_str(&text).expect("corpus.json parse");
        let tags = std::fs::read_to_string(format!("{}/corpus/tags.json", root))
            .ok()
            .and_then(|t| serde_json::from_str(&t).ok())
            .unwrap_or_default();
        Corpus { entries, tags }
    }
    pub fn world(&self, i: usize) -> World {
        let e = &self.entries[i];
        World { source: format!("corpus:{}#{}", e.file, i), items: split_items(&e.program), goals: e.goals.clone() }
    }
    /// is (entry, goal) tagged as not terminating / aborting / panicking for solver kind `kind`
    pub fn tagged(&self, entry: usize, goal: usize, kind: &str) -> Option<&String> {
        self.tags.bad.get(&format!("{}:{}:{}", entry, goal, kind))
    }
    pub fn tagged_any(&self, entry: usize, goal: usize) -> bool {
        ["slg", "rec", "rec-nocache"].iter().any(|k| self.tagged(entry, goal, k).is_some())
    }
}

/// Split program text into top-level items (attributes stay attached to the item that follows).
pub fn split_items(text: &str) -> Vec<String> {
    let mut items = vec![];
    let mut cur = String::new();
    let mut depth = 0i32;
    let mut paren = 0i32;
    for ch in text.chars() {
        cur.push(ch);
        match ch {
            '{' => depth += 1,
            '}' => {
                depth -= 1;
                if depth == 0 && paren == 0 {
                    items.push(cur.trim().to_string());
                    cur.clear();
                }
            }
            '(' | '[' => paren += 1,
            ')' | ']' => paren -= 1,
            ';' if depth == 0 && paren == 0 => {
                items.push(cur.trim().to_string());
                cur.clear();
            }
            _ => {}
        }
    }
    if !cur.trim().is_empty() {
        items.push(cur.trim().to_string());
    }
    items
}

pub fn has_lifetimes(w: &World) -> bool {
    w.items.iter().any(|i| i.contains('\'')) || w.goals.iter().any(|g| g.contains('\''))
}
