//! Worlds, solver slots, client operations and their execution against `SimDb`.

use crate::rng::Rng;
use crate::simdb::{SimBudget, SimDb, SimFault};
use chalk_integration::db::ChalkDatabase;
use chalk_integration::interner::ChalkIr;
use chalk_integration::lowering::lower_goal;
use chalk_integration::program::Program;
use chalk_integration::query::LoweringDatabase;
use chalk_integration::SolverChoice;
use chalk_ir::*;
use chalk_recursive::{Cache, RecursiveSolver};
use chalk_solve::ext::GoalExt;
use chalk_solve::{Guidance, RustIrDatabase, Solution, Solver, SubstitutionResult};
use serde::{Deserialize, Serialize};
use std::cell::{Cell, RefCell};
use std::panic::{catch_unwind, AssertUnwindSafe};
use std::sync::Arc;

pub type G = UCanonical<InEnvironment<Goal<ChalkIr>>>;
pub type Sol = Option<Solution<ChalkIr>>;

pub fn panic_msg(e: &Box<dyn std::any::Any + Send>) -> String {
    e.downcast_ref::<String>()
        .cloned()
        .or_else(|| e.downcast_ref::<&str>().map(|s| s.to_string()))
        .unwrap_or_else(|| "<non-string panic payload>".to_string())
}

/// Parse + lower a program with the real front end (no coherence / WF checking).
pub fn try_program(text: &str) -> Result<Arc<Program>, String> {
    let t = text.to_string();
    match catch_unwind(move || {
        let db = ChalkDatabase::with(&t, SolverChoice::default());
        db.program_ir().map_err(|e| e.to_string())
    }) {
        Ok(r) => r,
        Err(e) => Err(format!("panic in lowering: {}", panic_msg(&e))),
    }
}

/// Parse + lower + coherence + WF checks.
pub fn try_checked_program(text: &str) -> Result<Arc<Program>, String> {
    let t = text.to_string();
    match catch_unwind(move || {
        let db = ChalkDatabase::with(&t, SolverChoice::default());
        db.checked_program().map_err(|e| e.to_string())
    }) {
        Ok(r) => r,
        Err(e) => Err(format!("panic in checking: {}", panic_msg(&e))),
    }
}

/// Must be called inside `with_program` of the same program (debug names).
pub fn try_goal(p: &Arc<Program>, text: &str) -> Option<G> {
    let t = text.to_string();
    catch_unwind(AssertUnwindSafe(move || {
        let g = lower_goal(&*chalk_parse::parse_goal(&t).ok()?, &**p).ok()?;
        Some(g.into_peeled_goal(ChalkIr))
    }))
    .ok()
    .flatten()
}

/// Run `f` with `p` as the debug-name TLS program. Never nest (the TLS slot is not re-entrant).
pub fn with_program<R>(p: &Arc<Program>, f: impl FnOnce() -> R) -> R {
    chalk_integration::tls::set_current_program(p, f)
}

// ---------------------------------------------------------------- slots

#[derive(Serialize, Deserialize, Clone, Debug, PartialEq)]
pub enum SlotCfg {
    Slg { max_size: usize },
    Rec { max_size: usize, overflow_depth: usize, caching: bool, shared: Option<usize> },
}

impl SlotCfg {
    pub fn slg() -> SlotCfg {
        SlotCfg::Slg { max_size: 10 }
    }
    pub fn rec() -> SlotCfg {
        SlotCfg::Rec { max_size: 30, overflow_depth: 100, caching: true, shared: None }
    }
    pub fn rec_nocache() -> SlotCfg {
        SlotCfg::Rec { max_size: 30, overflow_depth: 100, caching: false, shared: None }
    }
    pub fn is_slg(&self) -> bool {
        matches!(self, SlotCfg::Slg { .. })
    }
    pub fn name(&self) -> String {
        match self {
            SlotCfg::Slg { max_size } => format!("slg(max_size={})", max_size),
            SlotCfg::Rec { max_size, overflow_depth, caching, shared } => format!(
                "rec(max_size={},overflow={},cache={}{})",
                max_size,
                overflow_depth,
                if *caching { "on" } else { "off" },
                shared.map(|s| format!(",shared#{}", s)).unwrap_or_default()
            ),
        }
    }
    pub fn kind(&self) -> &'static str {
        match self {
            SlotCfg::Slg { .. } => "slg",
            SlotCfg::Rec { caching: true, .. } => "rec",
            SlotCfg::Rec { caching: false, .. } => "rec-nocache",
        }
    }
    /// the configuration of a *fresh* solver equivalent to this slot (sharing dropped)
    pub fn fresh_cfg(&self) -> SlotCfg {
        match self {
            SlotCfg::Rec { max_size, overflow_depth, caching, .. } => {
                SlotCfg::Rec { max_size: *max_size, overflow_depth: *overflow_depth, caching: *caching, shared: None }
            }
            s => s.clone(),
        }
    }
}

type RecCache = Cache<UCanonical<InEnvironment<Goal<ChalkIr>>>, Fallible<Solution<ChalkIr>>>;

pub struct Slot {
    pub cfg: SlotCfg,
    pub solver: Box<dyn Solver<ChalkIr>>,
}

pub fn make_solver(cfg: &SlotCfg, shared: &mut Vec<(usize, RecCache)>) -> Box<dyn Solver<ChalkIr>> {
    match cfg {
        SlotCfg::Slg { max_size } => SolverChoice::SLG { max_size: *max_size, expected_answers: None }.into_solver(),
        SlotCfg::Rec { max_size, overflow_depth, caching, shared: sh } => {
            let cache = if !*caching {
                None
            } else if let Some(gid) = sh {
                if let Some((_, c)) = shared.iter().find(|(g, _)| g == gid) {
                    Some(c.clone())
                } else {
                    let c = RecCache::default();
                    shared.push((*gid, c.clone()));
                    Some(c)
                }
            } else {
                Some(RecCache::default())
            };
            Box::new(RecursiveSolver::new(*overflow_depth, *max_size, cache))
        }
    }
}

pub fn make_slots(cfgs: &[SlotCfg]) -> Vec<Slot> {
    let mut shared = vec![];
    cfgs.iter().map(|c| Slot { cfg: c.clone(), solver: make_solver(c, &mut shared) }).collect()
}

pub fn fresh_solver(cfg: &SlotCfg) -> Box<dyn Solver<ChalkIr>> {
    make_solver(&cfg.fresh_cfg(), &mut vec![])
}

// ---------------------------------------------------------------- operations

#[derive(Serialize, Deserialize, Clone, Debug, PartialEq)]
pub enum Sched {
    /// should_continue always true
    Never,
    /// false exactly at the k-th invocation (1-based)
    StopAt(u64),
    /// true before the k-th invocation, false from then on
    From(u64),
    /// false at every n-th invocation
    Every(u64),
    /// always false
    Always,
    /// false with probability pct/100, decided by a private stream
    Coin { seed: u64, pct: u32 },
}

#[derive(Serialize, Deserialize, Clone, Debug, PartialEq)]
pub enum OpKind {
    Solve,
    Limited(Sched),
    /// enumerate; the consumer returns false at callback number `stop_after` (0 = never stop, capped at `cap`)
    Multi { stop_after: usize, cap: usize },
    HasUnique,
}

#[derive(Serialize, Deserialize, Clone, Debug, PartialEq)]
pub struct Op {
    pub kind: OpKind,
    pub slot: usize,
    pub goal: usize,
    /// unwind out of the n-th database call of this operation
    pub fault: Option<u64>,
}

#[derive(Clone, Debug, PartialEq)]
pub enum MultiAns {
    Definite(Canonical<ConstrainedSubst<ChalkIr>>),
    Ambiguous(Canonical<ConstrainedSubst<ChalkIr>>),
    Floundered,
}

#[derive(Clone, Debug, PartialEq)]
pub enum Out {
    Ans(Sol),
    Bool(bool),
    Multi { answers: Vec<(MultiAns, bool)>, completed: bool },
    Faulted(u64, &'static str),
    Budget,
    Panic(String),
}

impl Out {
    pub fn class(&self) -> &'static str {
        match self {
            Out::Ans(None) => "none",
            Out::Ans(Some(Solution::Unique(_))) => "unique",
            Out::Ans(Some(Solution::Ambig(Guidance::Definite(_)))) => "ambig-definite",
            Out::Ans(Some(Solution::Ambig(Guidance::Suggested(_)))) => "ambig-suggested",
            Out::Ans(Some(Solution::Ambig(Guidance::Unknown))) => "ambig-unknown",
            Out::Bool(true) => "true",
            Out::Bool(false) => "false",
            Out::Multi { .. } => "multi",
            Out::Faulted(..) => "faulted",
            Out::Budget => "budget",
            Out::Panic(_) => "panic",
        }
    }
    pub fn is_answer(&self) -> bool {
        matches!(self, Out::Ans(_) | Out::Bool(_) | Out::Multi { .. })
    }
    pub fn sol(&self) -> Option<&Sol> {
        match self {
            Out::Ans(s) => Some(s),
            _ => None,
        }
    }
}

pub fn fmt_sol(s: &Sol) -> String {
    match s {
        Some(v) => v.display(ChalkIr).to_string(),
        None => "No possible solution".to_string(),
    }
}

pub fn fmt_multi(a: &MultiAns) -> String {
    match a {
        MultiAns::Definite(c) => format!("Definite {}", c.display_short()),
        MultiAns::Ambiguous(c) => format!("Ambiguous {}", c.display_short()),
        MultiAns::Floundered => "Floundered".to_string(),
    }
}

pub trait DisplayShort {
    fn display_short(&self) -> String;
}
impl DisplayShort for Canonical<ConstrainedSubst<ChalkIr>> {
    fn display_short(&self) -> String {
        // render through Solution's display, which prints binders, substitution and constraints
        Solution::Unique(self.clone()).display(ChalkIr).to_string()
    }
}

pub fn fmt_out(o: &Out) -> String {
    match o {
        Out::Ans(s) => fmt_sol(s),
        Out::Bool(b) => format!("has_unique={}", b),
        Out::Multi { answers, completed } => format!(
            "[{}] completed={}",
            answers.iter().map(|(a, m)| format!("{} more={}", fmt_multi(a), m)).collect::<Vec<_>>().join(" | "),
            completed
        ),
        Out::Faulted(n, m) => format!("<injected panic at db call {} ({})>", n, m),
        Out::Budget => "<step budget exhausted>".to_string(),
        Out::Panic(m) => format!("<panic: {}>", m.chars().take(160).collect::<String>()),
    }
}

thread_local! {
    /// probe hits of the current run (hooks in /repo, --cfg chalk_verif), accumulated across operations
    static PROBE_ACC: RefCell<std::collections::BTreeMap<&'static str, u64>> = RefCell::new(Default::default());
}

pub const PROBES: &[&str] = &[
    "solve.needs_truncation",
    "slg.coinductive_cycle",
    "slg.positive_cycle",
    "slg.negative_cycle",
    "slg.refinement_strand",
    "slg.table_floundered",
    "rec.cache_hit",
    "rec.mixed_cycle",
    "rec.fixed_point_reiteration",
    "rec.early_exit_rollback",
    "rec.interrupted_rollback",
    "rec.moved_to_cache",
    "could_match.prefilter_skipped",
];

/// move pending hook probes into the run accumulator; returns what was pending
pub fn drain_probes() -> std::collections::BTreeMap<&'static str, u64> {
    let p = chalk_ir::verif::take_probes();
    PROBE_ACC.with(|a| {
        let mut a = a.borrow_mut();
        for (k, v) in &p {
            *a.entry(k).or_insert(0) += v;
        }
    });
    p
}

/// take the run accumulator (called once per run by the worker)
pub fn take_run_probes() -> std::collections::BTreeMap<&'static str, u64> {
    drain_probes();
    PROBE_ACC.with(|a| std::mem::take(&mut *a.borrow_mut()))
}

#[derive(Clone, Debug, Default)]
pub struct OpStats {
    /// hook probes hit during this operation
    pub probes: std::collections::BTreeMap<&'static str, u64>,
    pub db_calls: u64,
    pub fault_points: u64,
    pub sc_calls: u64,
    pub sc_false: u64,
    pub callbacks: u64,
}

pub struct SchedState {
    sched: Sched,
    n: Cell<u64>,
    falses: Cell<u64>,
    rng: RefCell<Rng>,
}
impl SchedState {
    pub fn new(s: &Sched) -> SchedState {
        let seed = if let Sched::Coin { seed, .. } = s { *seed } else { 0 };
        SchedState { sched: s.clone(), n: Cell::new(0), falses: Cell::new(0), rng: RefCell::new(Rng::new(seed)) }
    }
    pub fn decide(&self) -> bool {
        let n = self.n.get() + 1;
        self.n.set(n);
        let cont = match &self.sched {
            Sched::Never => true,
            Sched::StopAt(k) => n != *k,
            Sched::From(k) => n < *k,
            Sched::Every(k) => n % *k != 0,
            Sched::Always => false,
            Sched::Coin { pct, .. } => !self.rng.borrow_mut().coin(*pct),
        };
        if !cont {
            self.falses.set(self.falses.get() + 1);
        }
        cont
    }
}

fn classify_unwind(e: Box<dyn std::any::Any + Send>) -> Out {
    if let Some(f) = e.downcast_ref::<SimFault>() {
        Out::Faulted(f.step, f.method)
    } else if e.downcast_ref::<SimBudget>().is_some() {
        Out::Budget
    } else {
        Out::Panic(panic_msg(&e))
    }
}

/// Execute one client operation on `solver` against `db` (which may be wrapped: `dyn_db` is what the
/// solver sees, `db` is the SimDb underneath that keeps the clock).
pub fn run_op_on(
    solver: &mut dyn Solver<ChalkIr>,
    dyn_db: &dyn RustIrDatabase<ChalkIr>,
    db: &SimDb,
    g: &G,
    kind: &OpKind,
    fault: Option<u64>,
    budget: u64,
) -> (Out, OpStats) {
    drain_probes();
    db.begin_op(budget, fault);
    let mut st = OpStats::default();
    let out = match kind {
        OpKind::Solve => match catch_unwind(AssertUnwindSafe(|| solver.solve(dyn_db, g))) {
            Ok(s) => Out::Ans(s),
            Err(e) => classify_unwind(e),
        },
        OpKind::HasUnique => match catch_unwind(AssertUnwindSafe(|| solver.has_unique_solution(dyn_db, g))) {
            Ok(b) => Out::Bool(b),
            Err(e) => classify_unwind(e),
        },
        OpKind::Limited(s) => {
            let ss = SchedState::new(s);
            let r = catch_unwind(AssertUnwindSafe(|| solver.solve_limited(dyn_db, g, &|| ss.decide())));
            st.sc_calls = ss.n.get();
            st.sc_false = ss.falses.get();
            match r {
                Ok(s) => Out::Ans(s),
                Err(e) => classify_unwind(e),
            }
        }
        OpKind::Multi { stop_after, cap } => {
            let mut answers: Vec<(MultiAns, bool)> = vec![];
            let r = catch_unwind(AssertUnwindSafe(|| {
                solver.solve_multiple(dyn_db, g, &mut |r, more| {
                    let a = match r {
                        SubstitutionResult::Definite(c) => MultiAns::Definite(c),
                        SubstitutionResult::Ambiguous(c) => MultiAns::Ambiguous(c),
                        SubstitutionResult::Floundered => MultiAns::Floundered,
                    };
                    answers.push((a, more));
                    let n = answers.len();
                    !(n == *stop_after || n >= *cap)
                })
            }));
            st.callbacks = answers.len() as u64;
            match r {
                Ok(completed) => Out::Multi { answers, completed },
                Err(e) => classify_unwind(e),
            }
        }
    };
    st.probes = drain_probes();
    st.db_calls = db.op_calls();
    st.fault_points = db.op_points();
    // disarm any fault that did not fire
    db.begin_op(u64::MAX, None);
    (out, st)
}

pub fn run_op(slot: &mut Slot, db: &SimDb, g: &G, kind: &OpKind, fault: Option<u64>, budget: u64) -> (Out, OpStats) {
    run_op_on(&mut *slot.solver, db, db, g, kind, fault, budget)
}

/// The specification answer: a brand-new solver of configuration `cfg` on a pristine SimDb.
pub fn fresh_answer(p: &Arc<Program>, cfg: &SlotCfg, g: &G, kind: &OpKind, budget: u64) -> (Out, OpStats) {
    let db = SimDb::new(p);
    let mut s = fresh_solver(cfg);
    run_op_on(&mut *s, &db, &db, g, kind, None, budget)
}
