//! `SimDb`: the simulator's seam S1. Wraps the real lowered `Program`; every callback
//! advances the step clock, may unwind (fault plan / step budget), and list answers may be
//! permuted or widened to a legal superset. All answers come from the real program.

use crate::rng::{Rng, RollHash};
use chalk_integration::interner::ChalkIr;
use chalk_integration::program::Program;
use chalk_ir::*;
use chalk_solve::rust_ir::*;
use chalk_solve::RustIrDatabase;
use std::cell::RefCell;
use std::sync::Arc;

pub const METHODS: &[&str] = &[
    "custom_clauses",
    "associated_ty_data",
    "trait_datum",
    "adt_datum",
    "coroutine_datum",
    "coroutine_witness_datum",
    "adt_repr",
    "adt_size_align",
    "fn_def_datum",
    "impl_datum",
    "associated_ty_from_impl",
    "associated_ty_value",
    "opaque_ty_data",
    "hidden_opaque_type",
    "impls_for_trait",
    "local_impls_to_coherence_check",
    "impl_provided_for",
    "well_known_trait_id",
    "well_known_assoc_type_id",
    "program_clauses_for_env",
    "interner",
    "is_object_safe",
    "closure_kind",
    "closure_inputs_and_output",
    "closure_upvars",
    "closure_fn_substitution",
    "unification_database",
    "discriminant_type",
    "trait_name",
    "adt_name",
    "assoc_type_name",
    "opaque_type_name",
    "fn_def_name",
    "fn_def_variance",
    "adt_variance",
];

pub fn method_id(name: &str) -> usize {
    METHODS.iter().position(|m| *m == name).expect("unknown method")
}

/// Typed unwind payloads, so injected faults are never confused with genuine chalk panics.
#[derive(Debug, Clone)]
pub struct SimFault {
    pub step: u64,
    pub method: &'static str,
}
#[derive(Debug, Clone)]
pub struct SimBudget;

#[derive(Debug)]
pub struct DbState {
    /// step clock: database calls since this SimDb was created
    pub calls: u64,
    /// database calls within the current client operation
    pub op_calls: u64,
    /// eligible fault points within the current operation (== op_calls unless data_only)
    pub op_points: u64,
    pub per_method: Vec<u64>,
    pub panic_at: Option<u64>,
    /// restrict fault points to callbacks that return program data (not interner()/unification_database())
    pub data_only: bool,
    pub budget: u64,
    pub perm_seed: Option<u64>,
    pub superset: bool,
    pub seam: bool,
    pub seam_checked: u64,
    pub seam_bad: Vec<String>,
    pub log: RollHash,
    pub fired: Vec<(u64, &'static str)>,
    pub permuted_lists: u64,
    pub superset_extra: u64,
    pub budget_hit: bool,
}

#[derive(Debug)]
pub struct SimDb {
    pub p: Arc<Program>,
    pub st: RefCell<DbState>,
}

pub const DEFAULT_BUDGET: u64 = 3_000_000;

impl SimDb {
    pub fn new(p: &Arc<Program>) -> SimDb {
        SimDb {
            p: p.clone(),
            st: RefCell::new(DbState {
                calls: 0,
                op_calls: 0,
                op_points: 0,
                per_method: vec![0; METHODS.len()],
                panic_at: None,
                data_only: false,
                budget: DEFAULT_BUDGET,
                perm_seed: None,
                superset: false,
                seam: false,
                seam_checked: 0,
                seam_bad: vec![],
                log: RollHash::new(),
                fired: vec![],
                permuted_lists: 0,
                superset_extra: 0,
                budget_hit: false,
            }),
        }
    }

    /// Start a client operation: reset the per-operation clock, set budget and fault plan.
    pub fn begin_op(&self, budget: u64, panic_at: Option<u64>) {
        let mut s = self.st.borrow_mut();
        s.op_calls = 0;
        s.op_points = 0;
        s.budget = budget;
        s.panic_at = panic_at;
        s.budget_hit = false;
    }
    pub fn op_calls(&self) -> u64 {
        self.st.borrow().op_calls
    }
    pub fn op_points(&self) -> u64 {
        self.st.borrow().op_points
    }
    pub fn calls(&self) -> u64 {
        self.st.borrow().calls
    }
    pub fn log_hash(&self) -> u64 {
        self.st.borrow().log.0
    }

    #[inline]
    fn tick(&self, mid: usize) {
        let mut s = self.st.borrow_mut();
        s.calls += 1;
        s.per_method[mid] += 1;
        s.log.add(mid as u64);
        s.op_calls += 1;
        let is_data = mid != 20 && mid != 26; // interner / unification_database
        if !s.data_only || is_data {
            s.op_points += 1;
            if let Some(n) = s.panic_at {
                if s.op_points == n {
                    s.panic_at = None;
                    let step = s.op_points;
                    s.fired.push((step, METHODS[mid]));
                    drop(s);
                    std::panic::panic_any(SimFault { step, method: METHODS[mid] });
                }
            }
        }
        if s.op_calls > s.budget {
            s.budget = u64::MAX;
            s.budget_hit = true;
            drop(s);
            std::panic::panic_any(SimBudget);
        }
    }

    fn perm<T>(&self, v: &mut Vec<T>) {
        let mut s = self.st.borrow_mut();
        if let Some(seed) = s.perm_seed {
            if v.len() > 1 {
                let mut r = Rng::new(seed ^ s.calls.wrapping_mul(0x9E37_79B9_7F4A_7C15));
                r.shuffle(v);
                s.permuted_lists += 1;
            }
        }
    }

    pub fn all_impls_of(&self, t: TraitId<ChalkIr>) -> Vec<ImplId<ChalkIr>> {
        self.p.impl_data.iter().filter(|(_, d)| d.trait_id() == t).map(|(&i, _)| i).collect()
    }

    /// C18 seam check: an impl the real pre-filter dropped must not unify with the query.
    fn seam_check(&self, t: TraitId<ChalkIr>, p: &[GenericArg<ChalkIr>], b: &CanonicalVarKinds<ChalkIr>, filtered: &[ImplId<ChalkIr>]) {
        use chalk_solve::infer::InferenceTable;
        for id in self.all_impls_of(t) {
            if filtered.contains(&id) {
                continue;
            }
            let max_u = b.iter(ChalkIr).map(|k| k.skip_kind().counter).max().unwrap_or(0);
            let params = Substitution::from_iter(ChalkIr, p.iter().cloned());
            let (mut table, _, params) =
                InferenceTable::from_canonical(ChalkIr, max_u + 8, Canonical { binders: b.clone(), value: params });
            let datum = self.p.impl_data[&id].clone();
            let bound = table.instantiate_binders_existentially(ChalkIr, datum.binders.clone());
            let env = Environment::new(ChalkIr);
            let ok = table
                .relate(
                    ChalkIr,
                    &*self.p,
                    &env,
                    Variance::Invariant,
                    params.as_slice(ChalkIr),
                    bound.trait_ref.substitution.as_slice(ChalkIr),
                )
                .is_ok();
            let mut s = self.st.borrow_mut();
            s.seam_checked += 1;
            if ok {
                s.seam_bad.push(format!("impl {:?} filtered out of query {:?}", bound.trait_ref, params));
            }
        }
    }
}

impl UnificationDatabase<ChalkIr> for SimDb {
    fn fn_def_variance(&self, id: FnDefId<ChalkIr>) -> Variances<ChalkIr> {
        self.tick(33);
        self.p.fn_def_variance(id)
    }
    fn adt_variance(&self, id: AdtId<ChalkIr>) -> Variances<ChalkIr> {
        self.tick(34);
        self.p.adt_variance(id)
    }
}

macro_rules! deleg {
    ($mid:expr, $name:ident ( $($a:ident : $t:ty),* ) -> $r:ty) => {
        fn $name(&self, $($a: $t),*) -> $r { self.tick($mid); self.p.$name($($a),*) }
    };
}

impl RustIrDatabase<ChalkIr> for SimDb {
    fn custom_clauses(&self) -> Vec<ProgramClause<ChalkIr>> {
        self.tick(0);
        let mut v = self.p.custom_clauses();
        self.perm(&mut v);
        v
    }
    deleg!(1, associated_ty_data(ty: AssocTypeId<ChalkIr>) -> Arc<AssociatedTyDatum<ChalkIr>>);
    deleg!(2, trait_datum(id: TraitId<ChalkIr>) -> Arc<TraitDatum<ChalkIr>>);
    deleg!(3, adt_datum(id: AdtId<ChalkIr>) -> Arc<AdtDatum<ChalkIr>>);
    deleg!(4, coroutine_datum(id: CoroutineId<ChalkIr>) -> Arc<CoroutineDatum<ChalkIr>>);
    deleg!(5, coroutine_witness_datum(id: CoroutineId<ChalkIr>) -> Arc<CoroutineWitnessDatum<ChalkIr>>);
    deleg!(6, adt_repr(id: AdtId<ChalkIr>) -> Arc<AdtRepr<ChalkIr>>);
    deleg!(7, adt_size_align(id: AdtId<ChalkIr>) -> Arc<AdtSizeAlign>);
    deleg!(8, fn_def_datum(id: FnDefId<ChalkIr>) -> Arc<FnDefDatum<ChalkIr>>);
    deleg!(9, impl_datum(id: ImplId<ChalkIr>) -> Arc<ImplDatum<ChalkIr>>);
    deleg!(10, associated_ty_from_impl(i: ImplId<ChalkIr>, a: AssocTypeId<ChalkIr>) -> Option<AssociatedTyValueId<ChalkIr>>);
    deleg!(11, associated_ty_value(id: AssociatedTyValueId<ChalkIr>) -> Arc<AssociatedTyValue<ChalkIr>>);
    deleg!(12, opaque_ty_data(id: OpaqueTyId<ChalkIr>) -> Arc<OpaqueTyDatum<ChalkIr>>);
    deleg!(13, hidden_opaque_type(id: OpaqueTyId<ChalkIr>) -> Ty<ChalkIr>);
    fn impls_for_trait(&self, t: TraitId<ChalkIr>, p: &[GenericArg<ChalkIr>], b: &CanonicalVarKinds<ChalkIr>) -> Vec<ImplId<ChalkIr>> {
        self.tick(14);
        let (superset, seam) = {
            let s = self.st.borrow();
            (s.superset, s.seam)
        };
        let mut v = if superset {
            let filtered = self.p.impls_for_trait(t, p, b);
            let all = self.all_impls_of(t);
            self.st.borrow_mut().superset_extra += (all.len() - filtered.len()) as u64;
            all
        } else {
            let filtered = self.p.impls_for_trait(t, p, b);
            if seam {
                self.seam_check(t, p, b, &filtered);
            }
            filtered
        };
        self.perm(&mut v);
        v
    }
    fn local_impls_to_coherence_check(&self, t: TraitId<ChalkIr>) -> Vec<ImplId<ChalkIr>> {
        self.tick(15);
        let mut v = self.p.local_impls_to_coherence_check(t);
        self.perm(&mut v);
        v
    }
    deleg!(16, impl_provided_for(t: TraitId<ChalkIr>, ty: &TyKind<ChalkIr>) -> bool);
    deleg!(17, well_known_trait_id(w: WellKnownTrait) -> Option<TraitId<ChalkIr>>);
    deleg!(18, well_known_assoc_type_id(w: WellKnownAssocType) -> Option<AssocTypeId<ChalkIr>>);
    fn program_clauses_for_env(&self, environment: &Environment<ChalkIr>) -> ProgramClauses<ChalkIr> {
        self.tick(19);
        let pc = chalk_solve::program_clauses_for_env(self, environment);
        if self.st.borrow().perm_seed.is_some() {
            let mut v: Vec<ProgramClause<ChalkIr>> = pc.iter(ChalkIr).cloned().collect();
            self.perm(&mut v);
            ProgramClauses::from_iter(ChalkIr, v)
        } else {
            pc
        }
    }
    fn interner(&self) -> ChalkIr {
        self.tick(20);
        ChalkIr
    }
    deleg!(21, is_object_safe(t: TraitId<ChalkIr>) -> bool);
    deleg!(22, closure_kind(c: ClosureId<ChalkIr>, s: &Substitution<ChalkIr>) -> ClosureKind);
    deleg!(23, closure_inputs_and_output(c: ClosureId<ChalkIr>, s: &Substitution<ChalkIr>) -> Binders<FnDefInputsAndOutputDatum<ChalkIr>>);
    deleg!(24, closure_upvars(c: ClosureId<ChalkIr>, s: &Substitution<ChalkIr>) -> Binders<Ty<ChalkIr>>);
    deleg!(25, closure_fn_substitution(c: ClosureId<ChalkIr>, s: &Substitution<ChalkIr>) -> Substitution<ChalkIr>);
    fn unification_database(&self) -> &dyn UnificationDatabase<ChalkIr> {
        self.tick(26);
        self
    }
    deleg!(27, discriminant_type(ty: Ty<ChalkIr>) -> Ty<ChalkIr>);
    deleg!(28, trait_name(t: TraitId<ChalkIr>) -> String);
    deleg!(29, adt_name(t: AdtId<ChalkIr>) -> String);
    deleg!(30, assoc_type_name(t: AssocTypeId<ChalkIr>) -> String);
    deleg!(31, opaque_type_name(t: OpaqueTyId<ChalkIr>) -> String);
    deleg!(32, fn_def_name(t: FnDefId<ChalkIr>) -> String);
}
